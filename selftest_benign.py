# Benign refactorings (negative controls of `./check selftest sensitivity`): the properties
# still hold with each of them, so every check must stay silent (exit 0, no VIOLATION, no
# harness error).  Each entry: id, file, list of (old, new) text replacements, description.

MAIN = 'chiritori-cli/src/main.rs'
EV = 'chiritori/src/code/remover/removal_evaluator/time_limited_evaluator.rs'

BENIGN = [
    dict(
        id='benign-io-refactoring',
        file=MAIN,
        edits=[
            ('use std::io::{prelude::*, BufReader};',
             'use std::io::{prelude::*, BufReader, BufWriter, IsTerminal};'),
            ('fn main() {\n    let args = Args::parse();',
             'fn main() -> Result<(), Box<dyn std::error::Error>> {\n    let args = Args::parse();'),
            ('if atty::isnt(atty::Stream::Stdin) {',
             'if !std::io::stdin().is_terminal() {'),
            ('        let mut f = File::open(args.filename.unwrap()).expect("file not found");\n'
             '        f.read_to_string(&mut content)\n'
             '            .expect("something went wrong reading the file");',
             '        content = std::fs::read_to_string(args.filename.unwrap()).expect("file not found");'),
            ('        let mut f = File::create(filename).expect("file not found");\n'
             '        f.write_all(output.as_bytes())\n'
             '            .expect("something went wrong writing the file");\n'
             '    } else {\n'
             '        print!("{}", output);\n'
             '    }\n'
             '}',
             '        // write to a temporary file, then move it into place\n'
             '        let tmp = format!("{}.chiritori-tmp", filename);\n'
             '        {\n'
             '            let mut w = BufWriter::new(File::create(&tmp)?);\n'
             '            w.write_all(output.as_bytes())?;\n'
             '            w.flush()?;\n'
             '        }\n'
             '        std::fs::rename(&tmp, &filename)?;\n'
             '    } else {\n'
             '        let stdout = std::io::stdout();\n'
             '        let mut lock = stdout.lock();\n'
             '        lock.write_all(output.as_bytes())?;\n'
             '        lock.flush()?;\n'
             '    }\n'
             '    Ok(())\n'
             '}'),
        ],
        what='IsTerminal instead of atty, fs::read_to_string, BufWriter + temporary file + rename, locked stdout, main returns Result',
    ),
    dict(
        id='benign-evaluator-refactoring',
        file=EV,
        edits=[
            ('        if self.current_time < expires.unwrap() {\n'
             '            return false;\n'
             '        }\n'
             '\n'
             '        true',
             '        let expires = expires.unwrap().with_timezone(&chrono::Utc);\n'
             '        self.current_time.with_timezone(&chrono::Utc) >= expires'),
        ],
        what='comparison rewritten on UTC instants',
    ),
    dict(
        id='benign-clock-read-late',
        file=MAIN,
        edits=[
            ('                .unwrap_or(chrono::Local::now()),',
             '                .unwrap_or_else(|_| {\n'
             '                    let _first = chrono::Local::now();\n'
             '                    let _second = chrono::Utc::now();\n'
             '                    chrono::Local::now()\n'
             '                }),'),
        ],
        what='the wall clock is read several times and a later reading is used (legal: any reading taken during the run is "now")',
    ),
    dict(
        id='benign-target-set-refactoring',
        file=MAIN,
        edits=[
            ('    let marker_removal_tags: HashSet<_> = removal_marker_target_names_from_file\n'
             '        .into_iter()\n'
             '        .chain(args.removal_marker_target_name)\n'
             '        .collect();',
             '    let mut marker_removal_tags: HashSet<String> = HashSet::new();\n'
             '    for name in args.removal_marker_target_name {\n'
             '        marker_removal_tags.insert(name);\n'
             '    }\n'
             '    marker_removal_tags.extend(removal_marker_target_names_from_file);'),
        ],
        what='target set built in another order (flags first, then file)',
    ),
]
