import json, os, subprocess, sys, time

scratch, verif = sys.argv[1], sys.argv[2]
args = sys.argv[3:]
with_suite = '--with-suite' in args
only = [a for a in args if not a.startswith('--')]
repo = os.path.join(scratch, 'repo')

EV = 'chiritori/src/code/remover/removal_evaluator/time_limited_evaluator.rs'
MAIN = 'chiritori-cli/src/main.rs'
UNWRAP = 'chiritori/src/code/remover/marker/builder/unwrap_block_marker_builder.rs'
NEXT = 'chiritori/src/code/formatter/next_line_break_remover.rs'
EMPTY = 'chiritori/src/code/formatter/empty_line_remover.rs'
REMOVER = 'chiritori/src/code/remover.rs'

MUTANTS = [
 # ---- C05 -------------------------------------------------------------------------------
 dict(id='c05-strict-boundary', prop='C05', file=EV, old='if self.current_time < expires.unwrap() {', new='if self.current_time <= expires.unwrap() {',
      what='equality no longer counts as expired'),
 dict(id='c05-offset-ignored', prop='C05', file=EV, old='expires_str.push_str(self.time_offset.as_str());', new='expires_str.push_str("+0000");',
      what='configured offset ignored'),
 dict(id='c05-fail-open', prop='C05', file=EV, old='''        if expires.is_err() {
            return false;
        }''', new='''        if expires.is_err() {
            return true;
        }''', what='unparseable `to`/offset makes the element ready'),
 dict(id='c05-naive-local-compare', prop='C05', file=EV, old='if self.current_time < expires.unwrap() {', new='if self.current_time.naive_local() < expires.unwrap().naive_local() {',
      what='wall-clock readings compared instead of instants (passes under TZ=UTC with +00:00)'),
 dict(id='c05-explicit-time-ignored', prop='C05', file=MAIN, old='.unwrap_or(chrono::Local::now()),', new='.map(|_: chrono::DateTime<chrono::Local>| chrono::Local::now()).unwrap_or(chrono::Local::now()),',
      what='--time-limited-current parsed but the wall clock is used'),
 dict(id='c05-subsecond-truncated-up', prop='C05', file=EV, old='if self.current_time < expires.unwrap() {', new='if self.current_time + chrono::Duration::milliseconds(1) < expires.unwrap() {',
      what='elements expire one millisecond early'),
 dict(id='c05-date-only-compare', prop='C05', file=EV, old='if self.current_time < expires.unwrap() {', new='if self.current_time.with_timezone(&chrono::Utc).date_naive() < expires.unwrap().with_timezone(&chrono::Utc).date_naive() {',
      what='only the UTC calendar date is compared'),
 # ---- C19 -------------------------------------------------------------------------------
 dict(id='c19-revert-F2', prop='C19', file=UNWRAP, old='if start >= end {', new='if start > end {', what='F2 re-introduced'),
 dict(id='c19-revert-F3', prop='C19', file=EMPTY, old="if bytes.get(byte_pos) != Some(&b'\\n') || !is_line_head(bytes, byte_pos) {", new="if bytes.get(byte_pos) != Some(&b'\\n') {", what='F3 re-introduced (empty line remover half)'),
 dict(id='c19-nextline-eats-one-more', prop='C19', file=NEXT, old='(byte_pos, line_break_pos)', new='(byte_pos, line_break_pos + 2)', what='NextLineBreakRemover removes one character too many'),
 dict(id='c19-child-merge-needs-both-ends', prop='C19', file=REMOVER, old='if marker.contains(&child_marker.start) || marker.contains(&child_marker.end) {', new='if marker.contains(&child_marker.start) && marker.contains(&child_marker.end) {',
      what='a ready child that only touches the wrapper part of an unwrap-block is no longer merged into it'),
 dict(id='c19-revert-F6', prop='C19', file='chiritori/src/tokenizer.rs', old="""            None => Some(Token {
                value: &source[byte_start_pos..],
                kind: TokenKind::Text,
                start: start_pos,
                byte_start: byte_start_pos,
                end: current,
                byte_end: byte_pos + last_char.len_utf8(),""", new="""            None => Some(Token {
                value: &source[byte_start_pos..],
                kind: TokenKind::Text,
                start: start_pos,
                byte_start: byte_start_pos,
                end: current,
                byte_end: byte_pos + 1,""", what='F6 re-introduced (end offset of the last token inside a multi-byte character)'),
 dict(id='c19-revert-F4-F5', prop='C19', file='chiritori/src/element_parser.rs', old="""                            State::NameBegin => match current_char {
                                ' ' | '\\n' | '\\t' | '\\r' => {}""", new="""                            State::NameBegin => match current_char {
                                ' ' => {}""", what='F4/F5 re-introduced (line break or tab before an attribute name becomes part of the name)'),
 dict(id='c19-verdict-cache-without-time', prop='C19', file=EV, old='''    fn is_removal(&self, start_el: &Element) -> bool {
        let expires_attr''', new='''    fn is_removal(&self, start_el: &Element) -> bool {
        thread_local! { static MEMO: std::cell::RefCell<std::collections::HashMap<String, bool>> = std::cell::RefCell::new(std::collections::HashMap::new()); }
        let key = format!("{:?}|{}", start_el.attrs.iter().map(|a| (a.name, a.value)).collect::<Vec<_>>(), self.time_offset);
        if let Some(v) = MEMO.with(|m| m.borrow().get(&key).copied()) {
            return v;
        }
        let v = self.is_removal_uncached(start_el);
        MEMO.with(|m| m.borrow_mut().insert(key, v));
        v
    }
}

impl TimeLimitedEvaluator {
    fn is_removal_uncached(&self, start_el: &Element) -> bool {
        let expires_attr''', what='thread-local memo of the verdict keyed without the current time: only a library session shows it'),
 dict(id='c19-unwrap-needs-three-lines', prop='C19', file=UNWRAP, old='if start >= end {', new='if start > end + 1 {', what='unwrap needs a non-empty body'),
 dict(id='c19-truncate-before-read', prop='C19', file=MAIN, old='    let mut content = String::new();\n    if args.filename.is_none() {', new='    let mut content = String::new();\n    let _early = args.output.as_ref().map(|f| File::create(f).expect("file not found"));\n    if args.filename.is_none() {',
      what='output opened (truncated) before the input is read: fatal for in-place use'),
 # ---- C20 -------------------------------------------------------------------------------
 dict(id='c20-revert-F1', prop='C20', file=MAIN, old='    #[arg(long)]\n    removal_marker_target_name: Vec<String>,', new='    #[arg(long, default_value = "vec![]")]\n    removal_marker_target_name: Vec<String>,', what='F1 re-introduced'),
 dict(id='c20-create-without-truncate', prop='C20', file=MAIN, old='let mut f = File::create(filename).expect("file not found");', new='let mut f = std::fs::OpenOptions::new().write(true).create(true).open(filename).expect("file not found");',
      what='pre-existing longer output keeps a stale tail'),
 dict(id='c20-single-read', prop='C20', file=MAIN, old='''        f.read_to_string(&mut content)
            .expect("something went wrong reading the file");''', new='''        let mut buf = vec![0u8; 1 << 20];
        let n = f.read(&mut buf).expect("something went wrong reading the file");
        content = String::from_utf8_lossy(&buf[..n]).into_owned();''', what='one read() instead of read_to_string: short reads lose input'),
 dict(id='c20-single-write', prop='C20', file=MAIN, old='f.write_all(output.as_bytes())', new='f.write(output.as_bytes()).map(|_| ())', what='one write() instead of write_all: short writes lose output'),
 dict(id='c20-bufwriter-exit-without-flush', prop='C20', file=MAIN, old='''        let mut f = File::create(filename).expect("file not found");
        f.write_all(output.as_bytes())
            .expect("something went wrong writing the file");''', new='''        let mut f = std::io::BufWriter::new(File::create(filename).expect("file not found"));
        f.write_all(output.as_bytes())
            .expect("something went wrong writing the file");
        std::process::exit(0);''', what='buffered writer + process::exit: destructors do not run, the buffered output is lost'),
 dict(id='c20-println', prop='C20', file=MAIN, old='print!("{}", output);', new='println!("{}", output);', what='stdout gets an extra newline'),
 dict(id='c20-flags-dropped-with-config', prop='C20', file=MAIN, old='''        .chain(args.removal_marker_target_name)''', new='''        .chain(if args.removal_marker_target_config.is_some() { vec![] } else { args.removal_marker_target_name })''',
      what='flag targets ignored when a config file is given', pre=('''        if let Some(removal_marker_target_config) = args.removal_marker_target_config {''', '''        if let Some(removal_marker_target_config) = args.removal_marker_target_config.clone() {''')),
 dict(id='c20-config-split-newline', prop='C20', file=MAIN, old='reader.lines().map_while(Result::ok).collect::<Vec<_>>()', new='{ let mut s = String::new(); let mut reader = reader; reader.read_to_string(&mut s).unwrap(); s.split(\'\\n\').map(|x| x.to_string()).collect::<Vec<_>>() }',
      what="split('\\n'): CRLF names keep \\r, trailing newline adds an empty target"),
 dict(id='c20-default-offset', prop='C20', file=MAIN, old='#[arg(long, default_value = "+00:00")]', new='#[arg(long, default_value = "+09:00")]', what='default offset changed'),
 dict(id='c20-explicit-time-ignored', prop='C20', file=MAIN, old='.unwrap_or(chrono::Local::now()),', new='.map(|_: chrono::DateTime<chrono::Local>| chrono::Local::now()).unwrap_or(chrono::Local::now()),', what='explicit current time ignored'),
 dict(id='c20-config-trimmed', prop='C20', file=MAIN, old='reader.lines().map_while(Result::ok).collect::<Vec<_>>()', new='reader.lines().map_while(Result::ok).map(|l| l.trim().to_string()).filter(|l| !l.is_empty()).collect::<Vec<_>>()',
      what='config names trimmed and blank lines dropped: not equivalent to flags'),
 dict(id='c20-list-also-to-stdout', prop='C20', file=MAIN, old='''        f.write_all(output.as_bytes())
            .expect("something went wrong writing the file");''', new='''        f.write_all(output.as_bytes())
            .expect("something went wrong writing the file");
        if args.list_json { print!("{}", output); }''', what='JSON list echoed to stdout although --output is given'),
]

sys.path.insert(0, verif)
from selftest_benign import BENIGN

def sh(cmd, **kw):
    return subprocess.run(cmd, shell=True, capture_output=True, text=True, **kw)

results = []
failed = 0
t00 = time.time()
for m in MUTANTS:
    if only and m['id'] not in only:
        continue
    path = os.path.join(repo, m['file'])
    orig = open(path).read()
    src = orig
    if 'pre' in m:
        assert src.count(m['pre'][0]) == 1, (m['id'], 'pre anchor')
        src = src.replace(m['pre'][0], m['pre'][1])
    if src.count(m['old']) != 1:
        print(f"{m['id']}: anchor text occurs {src.count(m['old'])} times in {m['file']} (expected 1): mutant not applicable to this tree")
        results.append(dict(id=m['id'], prop=m['prop'], status='anchor-missing'))
        failed += 1
        continue
    open(path, 'w').write(src.replace(m['old'], m['new']))
    t0 = time.time()
    suite = None
    if with_suite:
        r = sh(f"cd {repo} && cargo test --workspace --no-fail-fast --offline --target-dir {scratch}/suite-target 2>&1 | grep -E '^test result' ")
        suite = 'pass' if r.stdout and all(' 0 failed' in l for l in r.stdout.strip().splitlines()) else 'FAIL'
    r = sh(f"VERIF_REPO={repo} {verif}/check {m['prop']} quick")
    out = r.stdout + r.stderr
    viol = [l for l in out.splitlines() if l.startswith('VIOLATION')]
    inv = [l for l in out.splitlines() if l.startswith('violated invariant')]
    ok = (r.returncode == 1 and len(viol) == 1)
    replay_ok = None
    if ok:
        rp = viol[0].split('replay=')[1].strip()
        r2 = sh(f"VERIF_REPO={repo} {verif}/check replay {rp}")
        replay_ok = (r2.returncode == 1 and 'VIOLATION' in r2.stdout)
        ok = ok and replay_ok
    status = 'caught' if ok else ('harness-error' if r.returncode == 2 else 'MISSED')
    if not ok:
        failed += 1
    print(f"{m['id']:34s} {m['prop']} {status:8s} exit={r.returncode} replay={replay_ok} suite={suite} {time.time()-t0:5.1f}s  {inv[0] if inv else ''}")
    if status != 'caught':
        print('    ' + '\n    '.join(out.splitlines()[-8:]))
    results.append(dict(id=m['id'], prop=m['prop'], what=m['what'], status=status, suite=suite, invariant=inv[0] if inv else None))
    open(path, 'w').write(orig)

for m in BENIGN:
    if only and m['id'] not in only:
        continue
    path = os.path.join(repo, m['file'])
    orig = open(path).read()
    src = orig
    bad = False
    for old, new in m['edits']:
        if src.count(old) != 1:
            print(f"{m['id']}: anchor occurs {src.count(old)} times: {old[:60]!r}")
            bad = True
            break
        src = src.replace(old, new)
    if bad:
        failed += 1
        results.append(dict(id=m['id'], status='anchor-missing'))
        continue
    open(path, 'w').write(src)
    suite = None
    if with_suite:
        r = sh(f"cd {repo} && cargo test --workspace --no-fail-fast --offline --target-dir {scratch}/suite-target 2>&1 | grep -E '^test result' ")
        suite = 'pass' if r.stdout and all(' 0 failed' in l for l in r.stdout.strip().splitlines()) else 'FAIL'
    for prop in ('C05', 'C19', 'C20'):
        r = sh(f"VERIF_REPO={repo} {verif}/check {prop} quick")
        ok = r.returncode == 0 and 'VIOLATION' not in r.stdout
        print(f"{m['id']:34s} {prop} {'silent' if ok else 'ALARM/ERROR'} exit={r.returncode} suite={suite}")
        if not ok:
            failed += 1
            print('    ' + '\n    '.join((r.stdout + r.stderr).splitlines()[-10:]))
        results.append(dict(id=m['id'], prop=prop, what=m['what'], status='silent' if ok else 'ALARM', suite=suite))
    open(path, 'w').write(orig)

# the known-findings path: a listed finding is reported as KNOWN-FINDING (exit 0), a different
# violation of the same property is still a VIOLATION
if not only or 'known-findings-path' in only:
    known = os.path.join(scratch, 'known.txt')
    open(known, 'w').write('known: property=C20 signature=cli-removed-more:marker[vec![]] default target leaks (self-test entry)\n'
                           'known: property=C20 signature=cli-lists-ready-more:marker[vec![]] default target leaks, list modes (self-test entry)\n'
                           'known: property=C20 signature=cli-lists-ready-more:items default target leaks, list modes, tag not shown (self-test entry)\n')
    path = os.path.join(repo, MAIN)
    orig = open(path).read()
    f1_old = '    #[arg(long)]\n    removal_marker_target_name: Vec<String>,'
    f1_new = '    #[arg(long, default_value = "vec![]")]\n    removal_marker_target_name: Vec<String>,'
    open(path, 'w').write(orig.replace(f1_old, f1_new))
    r = sh(f"VERIF_SCENARIOS=1500 VERIF_KNOWN_FILE={known} VERIF_REPO={repo} {verif}/check C20 quick")
    # the listed signatures are reported as KNOWN-FINDING and never as the VIOLATION; the same
    # root cause may still surface under a signature that is not listed (list modes show it in
    # many shapes) - that is reported, by design: a known entry never masks what it does not name
    listed = ['cli-removed-more:marker[vec![]]', 'cli-lists-ready-more:marker[vec![]]', 'cli-lists-ready-more:items']
    reported = [l for l in r.stdout.splitlines() if l.startswith('violated invariant')]
    ok1 = 'KNOWN-FINDING: property=C20' in r.stdout and r.returncode in (0, 1) and not any(('signature ' + x + ')') in l for l in reported for x in listed)
    print(f"{'known-findings-path/listed':34s} C20 {'KNOWN-FINDING printed, listed signatures not reported as violation' if ok1 else 'UNEXPECTED'} exit={r.returncode}")
    if not ok1:
        print('    ' + '\n    '.join(l[:300] for l in (r.stdout + r.stderr).splitlines() if not l.startswith('  raw') )[-3000:])
    open(path, 'w').write(orig.replace(f1_old, f1_new).replace('print!("{}", output);', 'println!("{}", output);'))
    r = sh(f"VERIF_SCENARIOS=1500 VERIF_KNOWN_FILE={known} VERIF_REPO={repo} {verif}/check C20 quick")
    ok2 = r.returncode == 1 and 'VIOLATION property=C20' in r.stdout and 'KNOWN-FINDING: property=C20' in r.stdout
    print(f"{'known-findings-path/other':34s} C20 {'KNOWN-FINDING + VIOLATION, exit 1' if ok2 else 'UNEXPECTED'} exit={r.returncode}")
    if not (ok1 and ok2):
        failed += 1
        print('    ' + '\n    '.join((r.stdout + r.stderr).splitlines()[-10:]))
    results.append(dict(id='known-findings-path', prop='C20', status='ok' if (ok1 and ok2) else 'UNEXPECTED'))
    open(path, 'w').write(orig)

# the unbroken scratch copy must be silent
for prop in ('C05', 'C19', 'C20'):
    if only:
        break
    r = sh(f"VERIF_REPO={repo} {verif}/check {prop} quick")
    ok = r.returncode == 0 and 'VIOLATION' not in r.stdout
    print(f"{'unmodified-copy':34s} {prop} {'silent' if ok else 'ALARM'}")
    if not ok:
        failed += 1
    results.append(dict(id='unmodified-copy', prop=prop, status='silent' if ok else 'ALARM'))

os.makedirs(os.path.join(verif, 'selftest_results'), exist_ok=True)
if not only:
    json.dump(dict(wall_s=round(time.time()-t00, 1), results=results), open(os.path.join(verif, 'selftest_results', 'sensitivity.json'), 'w'), indent=1)
print(f"sensitivity: {len(results)} cases, {failed} not as expected, {time.time()-t00:.0f}s")
sys.exit(0 if failed == 0 else 2)
