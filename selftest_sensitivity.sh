#!/bin/bash
# Sensitivity self-test: deliberate, compiling breaks of each claimed property are applied one at a
# time to a scratch copy of /repo's working tree (outside /repo and /verif, removed afterwards); the
# quick check of the property must report a VIOLATION whose replay file reproduces.
# usage: selftest_sensitivity.sh [--with-suite] [mutant-id ...]
set -u
VERIF_DIR="$(cd "$(dirname "$0")" && pwd)"
SCRATCH="$(mktemp -d /tmp/verif-sens-XXXXXX)"
trap 'rm -rf "$SCRATCH"' EXIT
rsync -a --exclude target --exclude .git /repo/ "$SCRATCH/repo/"
export VERIF_NO_EVIDENCE=1
export VERIF_REPLAY_DIR="$SCRATCH/replays"
export VERIF_SHADOW_DIR="$SCRATCH/shadow"
mkdir -p "$VERIF_REPLAY_DIR"
exec python3 "$VERIF_DIR/selftest_sensitivity.py" "$SCRATCH" "$VERIF_DIR" "$@"
