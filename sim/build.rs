// Points the harness at the repository whose working tree is being verified.
// VERIF_REPO defaults to /repo; the sensitivity self-test builds scratch copies
// through a shadow manifest (see ../check) and sets VERIF_REPO accordingly.
fn main() {
    let repo = std::env::var("VERIF_REPO").unwrap_or_else(|_| "/repo".to_string());
    println!("cargo:rustc-env=VERIF_REPO={}", repo);
    println!("cargo:rerun-if-env-changed=VERIF_REPO");
    println!("cargo:rerun-if-changed={}/chiritori-cli/src/main.rs", repo);
    // export the executable's symbols dynamically as well, so that `clock_gettime` / `getrandom`
    // are found whichever way std looks them up (link time or dlsym)
    println!("cargo:rustc-link-arg=-rdynamic");
    println!("cargo:rerun-if-changed=build.rs");
}
