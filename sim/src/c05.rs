//! C05 — expiry decision: removed exactly when now >= `to` at the configured offset.
//!
//! Lease logic under a simulated clock: a fixed source of time-limited blocks is
//! cleaned by a history of simulated CLI executions at non-decreasing instants on
//! the boundary lattice of the expiry instants, each either reading the simulated
//! clock (frozen or advancing per reading) or given the instant explicitly in some
//! zone while clock and TZ hold decoys.  The oracle is a chrono-free reference.

use crate::common::*;
use crate::doc::{self, AttrVal, Doc, Elem, GenParams, Kind, Node};
use crate::reftime::{self, parse_offset_canonical, parse_to_canonical};
use crate::rng::Rng;
use crate::world::{execute, ClockSpec, Exec, Fs, IoPlan, Status, StdinSpec};
use serde::{Deserialize, Serialize};
use std::collections::{BTreeMap, BTreeSet};

#[derive(Clone, Debug, Serialize, Deserialize, PartialEq)]
pub enum RunTime {
    Clock { tick_ns: i64 },
    Explicit {
        zone_off: i64,
        zulu: bool,
        decoy: ClockSpec,
        /// relaxed spellings of the instant (see reftime::format_time_spelled)
        #[serde(default)]
        spelling: u8,
    },
}

#[derive(Clone, Debug, Serialize, Deserialize, PartialEq)]
pub struct Run {
    pub now: (i64, i64),
    pub time: RunTime,
    #[serde(default)]
    pub env: BTreeMap<String, String>,
    #[serde(default)]
    pub io: IoPlan,
    pub via_stdin: bool,
    /// this run uses another offset string than the scenario's (any class)
    #[serde(default)]
    pub offset_override: Option<String>,
}

#[derive(Clone, Debug, Serialize, Deserialize, PartialEq)]
pub struct C05Scn {
    pub doc: Doc,
    /// None = option omitted (documented default +00:00)
    pub offset: Option<String>,
    pub runs: Vec<Run>,
    /// true: the history is a *library session* (repeated `clean` calls on one thread of one
    /// process, as a long-running embedding would make them) instead of CLI executions
    #[serde(default)]
    pub session: bool,
}

#[derive(Clone, Copy, Debug, PartialEq)]
pub enum Class {
    /// canonical spelling: the reference decides (payload: seconds)
    Canonical(i64),
    /// digits with missing zero padding (`2024-6-1 9:00:00`): the shipped parser accepts them and
    /// their meaning is unambiguous.  Judged like Canonical, but only for elements that the
    /// implementation removes at some point of the history (an implementation that treats such a
    /// value as unparseable and never removes the element is not reported).
    Lenient(i64),
    /// an enumerated malformed class: must never make an element ready
    Invalid,
    /// outside both: judged only by monotonicity and environment-independence
    Grey,
}

pub fn classify_to(a: &Option<AttrVal>) -> Class {
    let s = match a {
        None | Some(AttrVal::Bare) | Some(AttrVal::Unquoted(_)) | Some(AttrVal::Mismatched(_)) => return Class::Invalid, // missing / valueless / unquoted / unterminated (no value recorded)
        Some(AttrVal::Val(s)) => s.as_str(),
    };
    if let Some(w) = parse_to_canonical(s) {
        return Class::Canonical(w);
    }
    if s.is_empty() || !s.bytes().any(|b| b.is_ascii_digit()) {
        return Class::Invalid; // empty / words
    }
    if let Some(w) = parse_to_unpadded(s) {
        return Class::Lenient(w);
    }
    let b = s.as_bytes();
    let digits_at = |idx: &[usize]| idx.iter().all(|i| b.get(*i).map_or(false, |c| c.is_ascii_digit()));
    const D: [usize; 14] = [0, 1, 2, 3, 5, 6, 8, 9, 11, 12, 14, 15, 17, 18];
    if b.len() == 19 && digits_at(&D) {
        let seps = [b[4], b[7], b[10], b[13], b[16]];
        if seps == [b'-', b'-', b' ', b':', b':'] {
            // canonical shape, out-of-range field(s); second 60 alone is chrono's leap second: grey
            let with_59 = format!("{}59", &s[..17]);
            if &s[17..] == "60" && parse_to_canonical(&with_59).is_some() {
                return Class::Grey;
            }
            return Class::Invalid;
        }
        let date_ok = seps[0] == seps[1] && matches!(seps[0], b'-' | b'/' | b'.');
        let mid_ok = matches!(seps[2], b' ' | b'T' | b'_');
        let time_ok = seps[3] == seps[4] && matches!(seps[3], b':' | b'.');
        if date_ok && mid_ok && time_ok {
            return Class::Invalid; // other separators
        }
        return Class::Grey;
    }
    if (b.len() == 10 && digits_at(&D[..8]) && b[4] == b'-' && b[7] == b'-')
        || (b.len() == 16 && digits_at(&D[..12]) && b[4] == b'-' && b[7] == b'-' && b[10] == b' ' && b[13] == b':')
    {
        return Class::Invalid; // missing time part / missing seconds
    }
    if b.len() > 19 && s.is_char_boundary(19) && parse_to_canonical(&s[..19]).is_some() {
        let rest = s[19..].trim_start();
        let zone = rest == "Z" || rest == "UTC" || rest == "JST" || parse_offset_canonical(rest).is_some();
        if zone {
            return Class::Invalid; // trailing zone
        }
    }
    Class::Grey
}

/// `Y-M-D h:m:s` with 1..2 digit fields (4 digit year), single separators, all in range.
fn parse_to_unpadded(s: &str) -> Option<i64> {
    let (date, time) = s.split_once(' ')?;
    let d: Vec<&str> = date.split('-').collect();
    let t: Vec<&str> = time.split(':').collect();
    if d.len() != 3 || t.len() != 3 || d[0].len() != 4 {
        return None;
    }
    let mut padded = String::new();
    padded.push_str(d[0]);
    for (i, f) in d[1..].iter().chain(t.iter()).enumerate() {
        if f.is_empty() || f.len() > 2 || !f.bytes().all(|b| b.is_ascii_digit()) {
            return None;
        }
        padded.push(match i {
            0 | 1 => '-',
            2 => ' ',
            _ => ':',
        });
        if f.len() == 1 {
            padded.push('0');
        }
        padded.push_str(f);
    }
    parse_to_canonical(&padded)
}

pub fn classify_offset(s: &str) -> Class {
    if let Some(o) = parse_offset_canonical(s) {
        return Class::Canonical(o);
    }
    // a canonical offset followed by further (non-blank) characters: `+09:00x`, `+0900 JST`, `+09:00:00`
    for n in [6usize, 5] {
        if s.len() > n && s.is_char_boundary(n) && parse_offset_canonical(&s[..n]).is_some() && !s[n..].trim().is_empty() {
            return Class::Invalid;
        }
    }
    let b = s.as_bytes();
    match b.first() {
        None => Class::Invalid, // empty
        Some(b'+') | Some(b'-') => {
            if b.len() < 2 || !b[1].is_ascii_digit() {
                Class::Invalid // sign without digits
            } else {
                Class::Grey
            }
        }
        Some(c) if c.is_ascii_alphanumeric() && *c != b'Z' && *c != b'z' => Class::Invalid, // no sign: names, bare digits
        _ => Class::Grey,
    }
}

const TO_INVALID: &[&str] = &[
    "",
    "never",
    "2024/03/01 00:00:00",
    "2024-03-01T00:00:00",
    "2024.03.01 00:00:00",
    "2024-03-01 00.00.00",
    "2024-03-01_00:00:00",
    "2024-03-01",
    "2024-03-01 00:00",
    "2024-13-01 00:00:00",
    "2024-00-10 00:00:00",
    "2024-03-32 00:00:00",
    "2024-02-30 00:00:00",
    "2023-02-29 00:00:00",
    "2024-03-01 24:00:00",
    "2024-03-01 00:60:00",
    "2024-03-01 00:00:61",
    "2024-03-01 00:00:00Z",
    "2024-03-01 00:00:00 Z",
    "2024-03-01 00:00:00+09:00",
    "2024-03-01 00:00:00 +0900",
    "2024-03-01 00:00:00 UTC",
    "1970-01-01 00:00:00 -00:00",
];

const TO_GREY: &[&str] = &[
    "2024-03-01  00:00:00",
    " 2024-03-01 00:00:00",
    "2024-03-01 00:00:00 ",
    "2024-02-29 23:59:60",
    "+2024-03-01 00:00:00",
    "02024-03-01 00:00:00",
    "24-03-01 00:00:00",
    "2024-03-01 00:00:00.5",
];

const OFF_INVALID: &[&str] = &[
    "", "UTC", "JST", "abc", "0900", "09:00", "+", "-", "+ab:cd", "+:00",
    // a valid offset with trailing characters
    "+09:00x", "+0900 JST", "+09:00:00", "+0900Z", "-05:00 EST", "+09:000", "+00:00+00:00",
];
const OFF_GREY: &[&str] = &["+9:00", "+24:00", "+0960", "+09", "\u{2212}09:00", "+09:00 ", " +09:00", "Z", "+09 00", "+99:00", "+090"];

/// Wall-clock bases around which `to` values cluster (day / month / year / leap-day boundaries).
const BASES: &[&str] = &[
    "2024-03-01 00:00:00",
    "2024-02-29 00:00:00",
    "2024-02-29 23:59:59",
    "2023-03-01 00:00:00",
    "2024-12-31 23:59:59",
    "2025-01-01 00:00:00",
    "2024-07-01 00:00:00",
    "2024-06-15 12:30:00",
    "2000-02-29 12:00:00",
    "2100-03-01 00:00:00",
    "9998-12-31 23:59:59",
    "1971-01-01 00:00:00",
    // inside daylight-saving transitions of zones in the TZ pool (as UTC wall clock)
    "2024-11-03 09:30:00",
    "2024-10-27 00:30:00",
    "2024-03-10 10:30:00",
    "2024-03-31 01:30:00",
];

pub fn generate(seed: u64) -> C05Scn {
    let mut rng = Rng::new(seed);
    // --- offset ---------------------------------------------------------------
    let (offset, off_class): (Option<String>, Class) = match rng.below(20) {
        0 => (None, Class::Canonical(0)),
        1 => {
            let s = rng.pick(OFF_INVALID).to_string();
            let c = classify_offset(&s);
            (Some(s), c)
        }
        2 => {
            let s = rng.pick(OFF_GREY).to_string();
            let c = classify_offset(&s);
            (Some(s), c)
        }
        _ => {
            let secs = rng.range(-48, 56) * 900;
            let s = reftime::format_offset(secs, rng.chance(1, 2));
            (Some(s), Class::Canonical(secs))
        }
    };
    let off_secs = if let Class::Canonical(o) = off_class { o } else { 0 };
    // --- `to` pool ---------------------------------------------------------------
    let base = parse_to_canonical(*rng.pick(BASES)).unwrap();
    let deltas: &[i64] = &[-2, -1, 0, 0, 1, 2, 60, -60, 86_400, -86_400, 3_600 * 9];
    let mut tos: Vec<Option<AttrVal>> = Vec::new();
    let mut walls: Vec<i64> = Vec::new();
    for _ in 0..6 {
        let w = base + *rng.pick(deltas);
        if w >= 86_400 * 2 && w < 253_402_300_800 - 86_400 * 2 {
            walls.push(w);
            tos.push(Some(AttrVal::Val(reftime::format_wall(w))));
            tos.push(Some(AttrVal::Val(reftime::format_wall(w))));
        }
    }
    if walls.is_empty() {
        walls.push(base);
        tos.push(Some(AttrVal::Val(reftime::format_wall(base))));
    }
    for w in walls.clone() {
        let c = reftime::format_wall(w);
        let unpadded = c.replace("-0", "-").replace(" 0", " ").replace(":0", ":");
        if unpadded != c && rng.chance(1, 2) {
            tos.push(Some(AttrVal::Val(unpadded)));
        }
    }
    tos.push(Some(AttrVal::Val(rng.pick(TO_INVALID).to_string())));
    tos.push(Some(AttrVal::Val(rng.pick(TO_INVALID).to_string())));
    tos.push(Some(AttrVal::Val(rng.pick(TO_GREY).to_string())));
    tos.push(None);
    tos.push(Some(AttrVal::Bare));
    tos.push(Some(AttrVal::Unquoted(reftime::format_wall(walls[0]).replace(' ', "T"))));
    tos.push(Some(AttrVal::Mismatched(reftime::format_wall(walls[0]))));
    let names = [None];
    let p = GenParams {
        max_elems: 9,
        max_depth: 2,
        tos: &tos,
        names: &names,
        allow_unwrap: false,
        allow_wrapper_layouts: false,
        allow_inline: true,
        allow_multiline_tag: true,
        allow_other: true,
        allow_skip: true,
        tl_eighths: 8,
        crlf_eighths: 1,
        large_inputs: false,
        default_config_eighths: 5,
    };
    let mut doc = doc::generate(&mut rng, &p);
    crate::c19::avoid_known_c01_panic(&mut doc);
    // now and then an element carries `to` twice: a malformed one first (that is the element's
    // `to`: it must never become ready) and a perfectly valid, long expired one after it
    let dup_wall = reftime::format_wall(walls[0] - 86_400 * 30);
    for e in doc.elems_mut() {
        if e.kind == Kind::Tl && e.inline.is_none() && rng.chance(1, 12) {
            e.to = Some(match rng.below(3) {
                0 => AttrVal::Bare,
                1 => AttrVal::Val("soon".into()),
                _ => AttrVal::Val("2024/01/01 00:00:00".into()),
            });
            e.to_dup = Some(AttrVal::Val(dup_wall.clone()));
            e.style &= !0x18; // keep the written order: the malformed one comes first
        }
    }
    // quotes: a `to` value never contains quotes, fine for both quote styles

    // --- history -----------------------------------------------------------------
    // expiry instants of the canonical elements (if the offset is canonical)
    let mut instants: Vec<i64> = walls.iter().map(|w| w - off_secs).collect();
    instants.sort();
    instants.dedup();
    let n_runs = 3 + rng.usize(6);
    let mut runs = Vec::new();
    let lo = instants[0];
    let mut t: (i64, i64) = match rng.below(3) {
        0 => (lo - 86_400 * 2, 0),
        1 => (lo - 2, rng.range(0, 999_999_999)),
        _ => (lo - 1, 0),
    };
    let mut env = gen_env(&mut rng);
    for _ in 0..n_runs {
        match rng.below(10) {
            0 => {} // duplicate instant (same instant, another environment / spelling)
            1 => t = (t.0 + rng.range(1, 86_400 * 3), rng.range(0, 999_999_999)),
            2 => t = (t.0 + rng.range(1, 3), *rng.pick(&[0i64, 1, 999_999_999])),
            _ => {
                // next lattice point at or after t
                let mut lattice: Vec<(i64, i64)> = Vec::new();
                for e in &instants {
                    lattice.extend_from_slice(&[(e - 1, 0), (e - 1, 999_999_999), (*e, 0), (*e, 1), (e + 1, 0)]);
                }
                lattice.sort();
                lattice.dedup();
                let ahead: Vec<(i64, i64)> = lattice.into_iter().filter(|x| *x >= t).collect();
                if !ahead.is_empty() {
                    let k = rng.usize(ahead.len().min(4));
                    t = ahead[k];
                }
            }
        }
        if t.0 < 0 {
            t = (0, 0);
        }
        if rng.chance(1, 3) {
            env = gen_env(&mut rng);
        }
        let zone_off = rng.range(-48, 56) * 900;
        let time = if rng.chance(1, 2) || !reftime::fits_rfc3339(t.0, zone_off) {
            RunTime::Clock { tick_ns: *rng.pick(&[0i64, 0, 0, 1, 1, 500_000_000, 1_000_000_000, -1, -1_000_000_000]) }
        } else {
            RunTime::Explicit {
                zone_off,
                zulu: rng.chance(1, 2),
                decoy: ClockSpec { sec: *rng.pick(&[0i64, lo - 5, lo + 5, 4_102_444_800, 253_402_300_799]).max(&0), nsec: rng.range(0, 999_999_999), tick_ns: 0 },
                spelling: if rng.chance(1, 3) { rng.below(8) as u8 } else { 0 },
            }
        };
        runs.push(Run { now: t, time, env: env.clone(), io: gen_io(&mut rng), via_stdin: rng.chance(1, 2), offset_override: None });
    }
    // now and then the last run happens centuries later (the removed set must still only grow)
    if rng.chance(1, 8) {
        let last = runs.last().unwrap().now.0;
        let far = *rng.pick(&[last + 86_400 * 365 * 293, last + 86_400 * 365 * 1_000, 253_402_300_799 - 86_400 * 400]);
        if far > last && far < 253_402_300_799 - 86_400 * 2 {
            runs.push(Run { now: (far, 0), time: RunTime::Clock { tick_ns: 0 }, env: env.clone(), io: IoPlan::default(), via_stdin: true, offset_override: None });
        }
    }
    // a quarter of the histories are library sessions; there (and sometimes between CLI runs)
    // the configured offset changes from call to call
    let session = rng.chance(1, 4);
    if session || rng.chance(1, 6) {
        for r in runs.iter_mut() {
            if rng.chance(1, 2) {
                r.offset_override = Some(match rng.below(8) {
                    0 => rng.pick(OFF_INVALID).to_string(),
                    1 => rng.pick(OFF_GREY).to_string(),
                    2 => reftime::format_offset(off_secs, rng.chance(1, 2)),
                    _ => reftime::format_offset(rng.range(-48, 56) * 900, rng.chance(1, 2)),
                });
            }
        }
    }
    C05Scn { doc, offset, runs, session }
}

fn run_exec(scn: &C05Scn, r: &Run, text: &str) -> (Fs, Exec) {
    let d = &scn.doc;
    let mut fs = Fs::new();
    let mut argv: Vec<String> = vec!["chiritori".into()];
    let stdin = if r.via_stdin {
        StdinSpec::Pipe(text.to_string())
    } else {
        fs.insert("src.txt".into(), text.as_bytes().to_vec());
        argv.push("--filename=src.txt".into());
        StdinSpec::Tty
    };
    if !d.uses_default_delims() {
        argv.push(format!("--delimiter-start={}", d.ds));
        argv.push(format!("--delimiter-end={}", d.de));
    }
    if d.tl_tag != doc::DEFAULT_TL {
        argv.push(format!("--time-limited-tag-name={}", d.tl_tag));
    }
    if let Some(o) = r.offset_override.as_ref().or(scn.offset.as_ref()) {
        argv.push(format!("--time-limited-time-offset={}", o));
    }
    let clock = match &r.time {
        RunTime::Clock { tick_ns } => ClockSpec { sec: r.now.0, nsec: r.now.1, tick_ns: *tick_ns },
        RunTime::Explicit { zone_off, zulu, decoy, spelling } => {
            argv.push(format!("--time-limited-current={}", reftime::format_time_spelled(r.now.0, r.now.1, *zone_off, *zulu, *spelling)));
            decoy.clone()
        }
    };
    (fs, Exec { argv, stdin, env: r.env.clone(), clock, io: r.io.clone(), stdout_tty: false, sizeless: vec![], mtimes: Default::default() })
}

/// (parent id, element) pairs in document order
fn with_parents(doc: &Doc) -> Vec<(Option<u32>, &Elem)> {
    fn walk<'a>(nodes: &'a [Node], parent: Option<u32>, out: &mut Vec<(Option<u32>, &'a Elem)>) {
        for n in nodes {
            if let Node::Elem(e) = n {
                out.push((parent, e));
                // inline elements nested inside an inline element
                let mut up = e;
                while let Some(c) = up.inline_child.as_deref() {
                    out.push((Some(up.id), c));
                    up = c;
                }
                if let Some((_, x)) = &e.inline_next {
                    out.push((parent, x)); // a sibling on the same line
                }
                walk(&e.children, Some(e.id), out);
            }
        }
    }
    let mut v = Vec::new();
    walk(&doc.nodes, None, &mut v);
    v
}

fn relation(now: (i64, i64), e: i64) -> &'static str {
    if now == (e, 0) {
        "T==E"
    } else if now == (e - 1, 999_999_999) {
        "T==E-1ns"
    } else if now == (e, 1) {
        "T==E+1ns"
    } else if now.0 == e - 1 {
        "T in [E-1s,E)"
    } else if now.0 == e || now.0 == e + 1 {
        "T in (E,E+2s)"
    } else if now.0 < e {
        "T<E"
    } else {
        "T>E"
    }
}

/// The library panicked on (document, offset).  C05 requires that a missing / valueless /
/// unparseable `to` and an unparseable offset merely keep the element: if the panic disappears
/// once every non-canonical `to` is replaced by a canonical far-future value, or once the
/// offset is replaced by a canonical one, the malformed value is what the evaluation choked on
/// and that is a violation of C05; otherwise it is a totality matter (C01) and unevaluable.
fn panic_is_due_to_malformed_value(scn: &C05Scn, offset_str: &str, now: (i64, i64)) -> Option<&'static str> {
    let mut d = scn.doc.clone();
    let mut changed = false;
    for e in d.elems_mut() {
        if !matches!(classify_to(&e.to), Class::Canonical(_)) {
            e.to = Some(AttrVal::Val("9999-01-01 00:00:00".into()));
            changed = true;
        }
    }
    if changed && lib_call(&d.render(), &d, offset_str, now, &BTreeSet::new(), Mode::Clean, false).is_ok() {
        return Some("panic-on-malformed-to");
    }
    if !matches!(classify_offset(offset_str), Class::Canonical(_))
        && lib_call(&scn.doc.render(), &scn.doc, "+00:00", now, &BTreeSet::new(), Mode::Clean, false).is_ok()
    {
        return Some("panic-on-malformed-offset");
    }
    None
}

fn offset_of(scn: &C05Scn, r: &Run) -> String {
    r.offset_override.clone().or_else(|| scn.offset.clone()).unwrap_or_else(|| "+00:00".to_string())
}

pub fn run(scn: &C05Scn, stats: &mut RunStats) -> Option<Violation> {
    let text = scn.doc.render();
    let elems = with_parents(&scn.doc);
    let fail = |inv: &str, sig: String, detail: String, step: usize| Some(Violation { invariant: inv.to_string(), signature: sig.replace(' ', "_"), detail, step });

    // library session: all calls are made up front, on one thread, in history order
    let session_outputs: Option<Vec<Result<String, String>>> = if scn.session {
        let calls: Vec<SessionCall> = scn
            .runs
            .iter()
            .map(|r| SessionCall { input: SessionInput::Text(text.clone()), offset: offset_of(scn, r), now: r.now, targets: BTreeSet::new() })
            .collect();
        let env = scn.runs.first().map(|r| r.env.clone()).unwrap_or_default();
        stats.bump("library_sessions");
        Some(library_session(&scn.doc, &env, calls))
    } else {
        None
    };

    // (envelope first, envelope last, absent set, stdout, offset) per run
    let mut hist: Vec<((i64, i64), (i64, i64), BTreeSet<u32>, Vec<u8>, String)> = Vec::new();
    let mut flipped = false;
    let mut perturbed = false;
    let mut pending: Vec<(u32, Violation)> = Vec::new();
    let mut ever_removed: BTreeSet<u32> = BTreeSet::new();
    for (k, r) in scn.runs.iter().enumerate() {
        let offset_str = offset_of(scn, r);
        let off_class = classify_offset(&offset_str);
        if r.offset_override.is_some() {
            stats.bump("probe_offset_changes_between_runs");
            perturbed = true;
        }
        // --- obtain this run's output -------------------------------------------------
        let (stdout_bytes, clock_first, clock_last): (Vec<u8>, Option<(i64, i64)>, (i64, i64)) = if let Some(outs) = &session_outputs {
            stats.execs += 1;
            stats.note(format!("call {} (library session) now={:?} offset={:?}", k, r.now, offset_str));
            match &outs[k] {
                Ok(o) => {
                    fnv(&mut stats.fingerprint, format!("session|{:x}", hash_str(o)).as_bytes());
                    fnv(&mut stats.log_hash, o.as_bytes());
                    stats.note(format!("   output: {:?}", o));
                    perturbed = true;
                    (o.clone().into_bytes(), None, r.now)
                }
                Err(_) => {
                    if let Some(sig) = panic_is_due_to_malformed_value(scn, &offset_str, r.now) {
                        return fail(
                            "C05.malformed_value_keeps_the_element",
                            sig.to_string(),
                            format!("call {} (library session, now={:?}, offset {:?}): the library panics, and does not once the malformed `to` values / offset are replaced by canonical ones", k, r.now, offset_str),
                            k,
                        );
                    }
                    stats.unevaluable = true;
                    stats.bump("unevaluable_library_panics");
                    return None;
                }
            }
        } else {
            let (mut fs, ex) = run_exec(scn, r, &text);
            let out = execute(&mut fs, &ex, crate::cli::run);
            stats.note(format!("run {} now={:?} argv={:?} env={:?} clock={:?}", k, r.now, ex.argv, ex.env, ex.clock));
            stats.absorb(&format!("run:{}", if r.via_stdin { "stdin" } else { "file" }), &out, &out.stdout);
            stats.note(format!("   stdout: {:?}", String::from_utf8_lossy(&out.stdout)));
            if any_soft_fault(&out) {
                stats.bump("execs_with_soft_fault");
                perturbed = true;
            }
            if r.env.contains_key("TZ") {
                perturbed = true;
            }
            match &out.status {
                Status::Exit(0) => {}
                other => {
                    if lib_call(&text, &scn.doc, &offset_str, r.now, &BTreeSet::new(), Mode::Clean, false).is_err() {
                        if let Some(sig) = panic_is_due_to_malformed_value(scn, &offset_str, r.now) {
                            return fail(
                                "C05.malformed_value_keeps_the_element",
                                sig.to_string(),
                                format!("run {} (now={:?}, offset {:?}) ended with {:?}: the library panics, and does not once the malformed `to` values / offset are replaced by canonical ones", k, r.now, offset_str, other),
                                k,
                            );
                        }
                        stats.unevaluable = true;
                        stats.bump("unevaluable_library_panics");
                        return None;
                    }
                    return fail("C05.run_completes", format!("status:{:?}", other).chars().take(50).collect(), format!("run {} ended with {:?}", k, other), k);
                }
            }
            (out.stdout.clone(), out.clock.first, out.clock.last)
        };
        let (first, last) = match &r.time {
            _ if scn.session => (r.now, r.now),
            RunTime::Explicit { .. } => {
                stats.bump("decoy_clock_fired");
                perturbed = true;
                (r.now, r.now)
            }
            RunTime::Clock { tick_ns } if *tick_ns == 0 => {
                stats.bump("clock_freeze_fired");
                (r.now, r.now)
            }
            RunTime::Clock { .. } => {
                stats.bump("clock_tick_per_read_fired");
                perturbed = true;
                if let RunTime::Clock { tick_ns } = &r.time {
                    if *tick_ns < 0 {
                        stats.bump("clock_steps_back_during_run_fired");
                    }
                }
                // envelope of the readings (the clock may also run backwards between readings)
                let (a, b) = (clock_first.unwrap_or(r.now), clock_last);
                (a.min(b), a.max(b))
            }
        };
        let stdout = String::from_utf8_lossy(&stdout_bytes).into_owned();
        let present: BTreeSet<u32> = scn.doc.surviving_ids(&stdout).into_iter().collect();
        let absent: BTreeSet<u32> = elems.iter().map(|(_, e)| e.id).filter(|id| !present.contains(id)).collect();

        // --- per-run oracle against the reference ---------------------------------
        for (parent, e) in &elems {
            if let Some(p) = parent {
                if absent.contains(p) {
                    continue; // swallowed by a removed ancestor
                }
            }
            if e.kind != Kind::Tl || e.skip {
                // an unregistered tag name, or `skip`: what happens to these is C06's business, not
                // C05's; they are in the document as distractors and are not judged here
                continue;
            }
            let to_class = classify_to(&e.to);
            let observed = absent.contains(&e.id);
            let (must_absent, must_present, rel): (bool, bool, &str) = match (to_class, off_class) {
                (Class::Invalid, _) | (_, Class::Invalid) => (false, true, "malformed"),
                (Class::Canonical(w) | Class::Lenient(w), Class::Canonical(o)) => {
                    let inst = w - o;
                    if inst == r.now.0 && r.now.1 == 0 {
                        stats.bump("probe_boundary_instant_hit_exactly");
                    }
                    if (inst - 1, 999_999_999) == r.now {
                        stats.bump("probe_one_nanosecond_before_expiry");
                    }
                    let day = |x: i64| x.div_euclid(86_400);
                    if o != 0 && day(w) != day(inst) {
                        stats.bump("probe_offset_moves_expiry_across_date");
                    }
                    (reftime::ready_at(inst, first), !reftime::ready_at(inst, last), relation(r.now, inst))
                }
                _ => {
                    stats.bump("grey_zone_judged_by_history_only");
                    (false, false, "grey")
                }
            };
            let lenient = matches!(to_class, Class::Lenient(_));
            if lenient && observed {
                ever_removed.insert(e.id);
                stats.bump("probe_unpadded_to_value_removed");
            }
            if must_absent && !observed && lenient {
                // reported only if the implementation removes this element at some other point of
                // the history (i.e. evidently understands the value)
                pending.push((
                    e.id,
                    Violation {
                        invariant: "C05.ready_iff_now_ge_to".into(),
                        signature: format!("kept-but-expired:unpadded-to:{}", rel).replace(' ', "_"),
                        detail: format!(
                            "run {} at now={:?}: element e{} (to={:?}, offset {:?}) is expired by the reference but was kept, although another run of the same history removes it\n  stdout {:?}",
                            k, r.now, e.id, e.to, offset_str, stdout
                        ),
                        step: k,
                    },
                ));
                continue;
            }
            if must_absent && !observed {
                return fail(
                    "C05.ready_iff_now_ge_to",
                    format!("kept-but-expired:{}", rel),
                    format!(
                        "run {} at now={:?}: element e{} (to={:?}, offset {:?}) is expired by the reference but was kept\n  stdout {:?}",
                        k, r.now, e.id, e.to, offset_str, stdout
                    ),
                    k,
                );
            }
            if must_present && observed {
                let what = if rel == "malformed" {
                    format!("removed-malformed:to={:?}:offset={:?}", class_name(to_class), class_name(off_class))
                } else {
                    format!("removed-before-expiry:{}", rel)
                };
                return fail(
                    "C05.ready_iff_now_ge_to",
                    what,
                    format!(
                        "run {} at now={:?}: element e{} (to={:?}, offset {:?}) must not be ready but was removed\n  stdout {:?}",
                        k, r.now, e.id, e.to, offset_str, stdout
                    ),
                    k,
                );
            }
        }
        // --- history oracles ---------------------------------------------------------
        if let Some((_, prev_last, prev_absent, prev_stdout, prev_offset)) = hist.last().filter(|h| h.4 == offset_str) {
            let _ = prev_offset;
            if *prev_last <= first {
                if !prev_absent.is_subset(&absent) {
                    let back: Vec<u32> = prev_absent.difference(&absent).copied().collect();
                    return fail(
                        "C05.removed_set_only_grows",
                        "reappeared".into(),
                        format!("run {} (now={:?}) kept elements {:?} that an earlier run at an earlier-or-equal instant removed", k, r.now, back),
                        k,
                    );
                }
                if prev_absent.len() < absent.len() {
                    flipped = true;
                }
            }
            let (pf, pl) = (hist.last().unwrap().0, hist.last().unwrap().1);
            if pf == pl && first == last && pf == first {
                stats.bump("probe_same_instant_different_environment");
                if *prev_stdout != stdout_bytes {
                    return fail(
                        "C05.same_instant_same_result",
                        "env-or-spelling-dependence".into(),
                        format!(
                            "runs {} and {} use the same instant {:?} but differ\n  {:?}\n  {:?}\n  env {:?} vs {:?}",
                            k - 1,
                            k,
                            first,
                            String::from_utf8_lossy(prev_stdout),
                            stdout,
                            scn.runs[k - 1].env,
                            r.env
                        ),
                        k,
                    );
                }
            }
        }
        hist.push((first, last, absent, stdout_bytes.clone(), offset_str.clone()));
    }
    for (id, v) in pending {
        if ever_removed.contains(&id) {
            return Some(v);
        }
    }
    if let (Some(a), Some(b)) = (scn.runs.first(), scn.runs.last()) {
        stats.sim_seconds = b.now.0 - a.now.0;
    }
    stats.nontrivial = flipped && perturbed;
    None
}

fn class_name(c: Class) -> &'static str {
    match c {
        Class::Canonical(_) => "canonical",
        Class::Lenient(_) => "unpadded",
        Class::Invalid => "malformed",
        Class::Grey => "grey",
    }
}

pub fn shrink_candidates(s: &C05Scn) -> Vec<C05Scn> {
    let mut out = Vec::new();
    if s.runs.len() > 1 {
        for i in 0..s.runs.len() {
            let mut c = s.clone();
            c.runs = vec![s.runs[i].clone()];
            out.push(c);
        }
        for i in 0..s.runs.len() {
            let mut c = s.clone();
            c.runs.remove(i);
            out.push(c);
        }
    }
    for d in s.doc.shrink_candidates() {
        let mut c = s.clone();
        c.doc = d;
        out.push(c);
    }
    for (i, r) in s.runs.iter().enumerate() {
        let mut push = |nr: Run| {
            if nr != *r {
                let mut c = s.clone();
                c.runs[i] = nr;
                out.push(c);
            }
        };
        let mut nr = r.clone();
        nr.io = IoPlan::default();
        push(nr);
        let mut nr = r.clone();
        nr.env.clear();
        push(nr);
        for k in r.env.keys() {
            let mut nr = r.clone();
            nr.env.remove(k);
            push(nr);
        }
        let mut nr = r.clone();
        nr.time = RunTime::Clock { tick_ns: 0 };
        push(nr);
        if let RunTime::Explicit { decoy, .. } = &r.time {
            let mut nr = r.clone();
            nr.time = RunTime::Explicit { zone_off: 0, zulu: true, decoy: decoy.clone(), spelling: 0 };
            push(nr);
        }
        let mut nr = r.clone();
        nr.via_stdin = true;
        push(nr);
        let mut nr = r.clone();
        nr.now.1 = 0;
        push(nr);
    }
    out
}

pub fn sample(s: &C05Scn) -> serde_json::Value {
    let text = s.doc.render();
    let runs: Vec<serde_json::Value> = s
        .runs
        .iter()
        .map(|r| {
            let (_, ex) = run_exec(s, r, &text);
            serde_json::json!({"now": [r.now.0, r.now.1], "argv": ex.argv, "env": ex.env, "clock": [ex.clock.sec, ex.clock.nsec, ex.clock.tick_ns], "via_stdin": r.via_stdin, "io_plan": r.io})
        })
        .collect();
    serde_json::json!({"library_session": s.session, "source": text, "offset": s.offset, "runs": runs})
}

/// The enumerated tables must classify as intended (checked at worker start).
pub fn check_tables() {
    for s in TO_INVALID {
        assert_eq!(classify_to(&Some(AttrVal::Val(s.to_string()))), Class::Invalid, "TO_INVALID {:?}", s);
    }
    for s in TO_GREY {
        assert_eq!(classify_to(&Some(AttrVal::Val(s.to_string()))), Class::Grey, "TO_GREY {:?}", s);
    }
    assert_eq!(classify_to(&Some(AttrVal::Val("2024-3-1 0:0:0".into()))), Class::Lenient(parse_to_canonical("2024-03-01 00:00:00").unwrap()));
    assert_eq!(classify_to(&Some(AttrVal::Val("2024-13-1 0:0:0".into()))), Class::Grey);
    for s in OFF_INVALID {
        assert_eq!(classify_offset(s), Class::Invalid, "OFF_INVALID {:?}", s);
    }
    for s in OFF_GREY {
        assert_eq!(classify_offset(s), Class::Grey, "OFF_GREY {:?}", s);
    }
    for s in BASES {
        assert!(parse_to_canonical(s).is_some(), "BASES {:?}", s);
    }
}
