use crate::common::*;
use crate::doc::Doc;
use serde::{Deserialize, Serialize};

#[derive(Clone, Debug, Serialize, Deserialize, PartialEq)]
pub struct C05Scn {
    pub doc: Doc,
}
pub fn generate(_seed: u64) -> C05Scn {
    unimplemented!()
}
pub fn run(_s: &C05Scn, _stats: &mut RunStats) -> Option<Violation> {
    None
}
pub fn shrink_candidates(_s: &C05Scn) -> Vec<C05Scn> {
    vec![]
}
pub fn sample(_s: &C05Scn) -> serde_json::Value {
    serde_json::Value::Null
}
