//! C19 — cleaning is idempotent and composes over time.
//!
//! The system under simulation is the deployed one: a periodically invoked
//! process (`chiritori --filename F --output F ...`) rewriting a file in place,
//! with the wall clock and a growing target config as inputs nobody controls.
//! A scenario is a history of events; the file on the simulated disk is the
//! only durable state.

use crate::common::*;
use crate::doc::{self, AttrVal, Doc, GenParams, Kind};
use crate::reftime;
use crate::rng::Rng;
use crate::world::{execute, ClockSpec, CrashAt, Exec, Fs, IoPlan, Outcome, Status, StdinSpec};
use serde::{Deserialize, Serialize};
use std::collections::{BTreeMap, BTreeSet};

#[derive(Clone, Debug, Serialize, Deserialize, PartialEq)]
pub enum TickTime {
    /// the run reads the simulated clock, which advances `tick_ns` per reading
    Clock { tick_ns: i64 },
    /// the run is given the instant explicitly; the clock holds a decoy
    Explicit {
        zone_off: i64,
        zulu: bool,
        decoy: ClockSpec,
        /// relaxed spellings of the instant (see reftime::format_time_spelled)
        #[serde(default)]
        spelling: u8,
    },
}

#[derive(Clone, Debug, Serialize, Deserialize, PartialEq)]
pub struct Tick {
    pub now: (i64, i64),
    pub time: TickTime,
    #[serde(default)]
    pub env: BTreeMap<String, String>,
    #[serde(default)]
    pub io: IoPlan,
    /// how the scheduler produced this tick: cron | dup | delayed | retry | after_lost | step_fwd
    #[serde(default)]
    pub label: String,
}

#[derive(Clone, Debug, Serialize, Deserialize, PartialEq)]
pub enum Event {
    Tick(Tick),
    /// a second actor appends a target name to the config file
    ConfigGrows { name: String },
}

#[derive(Clone, Debug, Serialize, Deserialize, PartialEq)]
pub struct C19Scn {
    pub doc: Doc,
    pub offset: String,
    pub initial_targets: Vec<String>,
    /// passed as --removal-marker-target-name on every tick
    pub flag_targets: Vec<String>,
    pub events: Vec<Event>,
    /// true: the runs alternate between two work files (`--filename a --output b`, then
    /// `--filename b --output a`, ...) instead of rewriting one file in place
    #[serde(default)]
    pub pingpong: bool,
    /// true: every run cleans the untouched source into the same separate output file
    /// (`--filename a --output b` each time, as a build step would): each run is a one-shot run
    /// whose destination already holds an earlier result
    #[serde(default)]
    pub rebuild: bool,
    /// true: in-place runs name the output by another spelling of the input path (`./x` for `x`)
    #[serde(default)]
    pub alias_spelling: bool,
    /// true: the history is a *library session* (stepwise `clean` calls on one thread of one
    /// process) instead of CLI executions rewriting a file; crashes and I/O plans do not apply
    #[serde(default)]
    pub session: bool,
}

const SRC: &str = "app/src.txt";
/// second work file of a ping-pong history (`-f a -o b`, then `-f b -o a`, ...)
const SRC_B: &str = "app/src.next.txt";
const CFG: &str = "targets.txt";
const FEATURES: &[&str] = &["feature1", "feature2", "feature3", "Feature1", "feature10", "機能A"];

pub const E_BASE: i64 = 1_709_164_800; // 2024-02-29T00:00:00Z

pub fn expiries() -> [i64; 4] {
    [E_BASE, E_BASE + 1, E_BASE + 90_000, E_BASE + 86_400 * 307]
}

pub fn generate(seed: u64) -> C19Scn {
    let mut rng = Rng::new(seed);
    let off_secs = if rng.chance(1, 3) { 0 } else { rng.range(-48, 56) * 900 };
    let offset = reftime::format_offset(off_secs, rng.chance(1, 2));
    let e = expiries();
    let mut tos: Vec<Option<AttrVal>> = Vec::new();
    for x in e {
        for _ in 0..3 {
            tos.push(Some(AttrVal::Val(reftime::format_wall(x + off_secs))));
        }
    }
    // spellings of the same instants that the library also accepts (unpadded fields, extra blanks)
    for x in e {
        let w = reftime::format_wall(x + off_secs);
        let unpadded = w.replace("-0", "-").replace(" 0", " ");
        if unpadded != w {
            tos.push(Some(AttrVal::Val(unpadded)));
        }
        if rng.chance(1, 2) {
            tos.push(Some(AttrVal::Val(w.replacen(' ', "  ", 1))));
        }
    }
    tos.push(Some(AttrVal::Val("9999-12-31 23:59:59".into())));
    tos.push(Some(AttrVal::Val("2024/02/29 00:00:00".into())));
    tos.push(None);
    let mut names: Vec<Option<AttrVal>> = Vec::new();
    for f in FEATURES {
        names.push(Some(AttrVal::Val(f.to_string())));
        names.push(Some(AttrVal::Val(f.to_string())));
    }
    names.push(Some(AttrVal::Val("never".into())));
    names.push(Some(AttrVal::Bare));
    let p = GenParams {
        max_elems: 8,
        max_depth: 3,
        tos: &tos,
        names: &names,
        allow_unwrap: true,
        allow_wrapper_layouts: true,
        allow_inline: true,
        allow_multiline_tag: true,
        allow_other: true,
        allow_skip: true,
        tl_eighths: 5,
        crlf_eighths: 1,
        large_inputs: true,
        default_config_eighths: 4,
    };
    let mut doc = doc::generate(&mut rng, &p);
    avoid_known_c01_panic(&mut doc);
    if rng.chance(1, 50) {
        // a legal if odd configuration: the same tag name for both kinds of element
        doc.rm_tag = doc.tl_tag.clone();
    }

    let mut initial_targets = Vec::new();
    if rng.chance(1, 3) {
        initial_targets.push(rng.pick(FEATURES).to_string());
    }
    let mut flag_targets = Vec::new();
    if rng.chance(1, 5) {
        flag_targets.push(rng.pick(FEATURES).to_string());
    }

    // --- the schedule -------------------------------------------------------
    let n_events = 1 + rng.usize(12);
    let mut events = Vec::new();
    let mut t: (i64, i64) = match rng.below(4) {
        0 => (e[0] - 86_400 * 10, 0),
        1 => (e[0] - 2, 0),
        2 => (e[0] - 1, 999_999_999),
        _ => (e[0], 0),
    };
    let period: i64 = *rng.pick(&[1, 1, 60, 3_600, 43_200, 86_400 * 20]);
    let mut env = gen_env(&mut rng);
    let mut lost_pending = false;
    while events.len() < n_events {
        let r = rng.below(20);
        if r < 4 {
            let used: Vec<String> = doc
                .elems()
                .iter()
                .filter(|e| e.kind == Kind::Rm)
                .filter_map(|e| match &e.name {
                    Some(AttrVal::Val(n)) => Some(n.clone()),
                    _ => None,
                })
                .collect();
            let name = if !used.is_empty() && rng.chance(4, 5) { rng.pick(&used).clone() } else { rng.pick(FEATURES).to_string() };
            events.push(Event::ConfigGrows { name });
            continue;
        }
        // advance time
        let mut label = "cron";
        match rng.below(10) {
            0 | 1 => {
                label = "dup"; // at-least-once delivery: same instant again
            }
            2 | 3 | 4 | 7 | 8 => {
                // land on the boundary lattice of the next expiry
                let next = e.iter().copied().find(|x| *x > t.0).unwrap_or(t.0 + period);
                let cand = [(next - 1, 0), (next - 1, 999_999_999), (next, 0), (next, 1), (next + 1, 0)];
                let c = *rng.pick(&cand);
                if c >= t {
                    t = c;
                }
            }
            5 => {
                label = "step_fwd"; // clock stepped forward (NTP) / host suspended
                t = (t.0 + period * rng.range(10, 500), rng.range(0, 999_999_999));
            }
            6 => {
                label = "delayed";
                t = (t.0 + period + rng.range(1, period.max(2)), rng.range(0, 999_999_999));
            }
            _ => {
                let jitter = rng.range(0, (period / 10).max(1));
                t = (t.0 + period + jitter, if rng.chance(1, 2) { 0 } else { rng.range(0, 999_999_999) });
            }
        }
        if rng.chance(1, 10) {
            // this tick is lost (host down): time passes, nothing runs
            lost_pending = true;
            continue;
        }
        if lost_pending && label == "cron" {
            label = "after_lost";
        }
        lost_pending = false;
        if rng.chance(1, 6) {
            env = gen_env(&mut rng); // the job moved to another runner
        }
        let time = if rng.chance(1, 2) {
            TickTime::Clock { tick_ns: *rng.pick(&[0i64, 0, 0, 1, 1_000, 250_000_000, -1, -500_000_000]) }
        } else {
            TickTime::Explicit {
                zone_off: rng.range(-48, 56) * 900,
                zulu: rng.chance(1, 2),
                decoy: ClockSpec { sec: *rng.pick(&[0i64, 946_684_800, 4_102_444_800]), nsec: 0, tick_ns: 0 },
                spelling: if rng.chance(1, 3) { rng.below(8) as u8 } else { 0 },
            }
        };
        let mut io = gen_io(&mut rng);
        let crash = match rng.below(24) {
            0 | 1 => Some(CrashAt::BeforeOpenWrite),
            2 | 3 => Some(CrashAt::AtExit),
            // anywhere in the commit protocol: right after the n-th mutation of the file system
            4 | 5 => Some(CrashAt::AfterFsOps(rng.below(5) as u32)),
            _ => None,
        };
        io.crash = crash.clone();
        events.push(Event::Tick(Tick { now: t, time: time.clone(), env: env.clone(), io, label: label.to_string() }));
        if crash.is_some() && events.len() < n_events + 2 && rng.chance(2, 3) {
            // the supervisor retries a run whose status it did not see (not always: sometimes the
            // next regular run is the first one after the crash)
            events.push(Event::Tick(Tick { now: t, time, env: env.clone(), io: gen_io(&mut rng), label: "retry".to_string() }));
        }
    }
    let session = rng.chance(1, 5);
    let pingpong = !session && rng.chance(1, 6);
    let rebuild = !session && !pingpong && rng.chance(1, 8);
    let alias_spelling = !session && !pingpong && !rebuild && rng.chance(1, 4);
    C19Scn { doc, offset, initial_targets, flag_targets, events, session, pingpong, rebuild, alias_spelling }
}

/// (Until the tokenizer's end-offset defect was repaired - F6 - documents ending in a
/// multi-byte end delimiter were given a final newline here.  Nothing is avoided any more.)
pub fn avoid_known_c01_panic(_doc: &mut Doc) {}

fn tick_exec(scn: &C19Scn, t: &Tick, input: &str, output: &str) -> Exec {
    let d = &scn.doc;
    let spelled_output = if scn.alias_spelling && input == output { format!("./{}", output.replacen('/', "//", 1)) } else { output.to_string() };
    let mut argv: Vec<String> = vec!["chiritori".into(), "--filename".into(), input.into(), "--output".into(), spelled_output];
    argv.push(format!("--removal-marker-target-config={}", CFG));
    for f in &scn.flag_targets {
        argv.push(format!("--removal-marker-target-name={}", f));
    }
    if !d.uses_default_delims() {
        argv.push(format!("--delimiter-start={}", d.ds));
        argv.push(format!("--delimiter-end={}", d.de));
    }
    if d.tl_tag != doc::DEFAULT_TL {
        argv.push(format!("--time-limited-tag-name={}", d.tl_tag));
    }
    if d.rm_tag != doc::DEFAULT_RM {
        argv.push(format!("--removal-marker-tag-name={}", d.rm_tag));
    }
    argv.push(format!("--time-limited-time-offset={}", scn.offset));
    let clock = match &t.time {
        TickTime::Clock { tick_ns } => ClockSpec { sec: t.now.0, nsec: t.now.1, tick_ns: *tick_ns },
        TickTime::Explicit { zone_off, zulu, decoy, spelling } => {
            argv.push(format!("--time-limited-current={}", reftime::format_time_spelled(t.now.0, t.now.1, *zone_off, *zulu, *spelling)));
            decoy.clone()
        }
    };
    Exec { argv, stdin: StdinSpec::Tty, env: t.env.clone(), clock, io: t.io.clone(), stdout_tty: false, sizeless: vec![], mtimes: Default::default() }
}

/// The instants the run may have used as "now" (a sound envelope when the
/// clock advances between chrono's readings).
fn candidate_instants(t: &Tick, out: &Outcome) -> Vec<(i64, i64)> {
    match &t.time {
        TickTime::Explicit { .. } => vec![t.now],
        TickTime::Clock { tick_ns } if *tick_ns == 0 => vec![t.now],
        TickTime::Clock { .. } => {
            // envelope of the readings (the clock may also run backwards between readings)
            let (a, b) = (out.clock.first.unwrap_or(t.now), out.clock.last);
            let (first, last) = (a.min(b), a.max(b));
            let mut v = vec![first, last];
            for e in expiries() {
                if (e, 0) > first && (e, 0) < last {
                    v.push((e, 0));
                }
            }
            v.sort();
            v.dedup();
            v
        }
    }
}

fn describe(doc: &Doc, ids: &BTreeSet<u32>) -> String {
    let mut v: Vec<String> = doc
        .elems()
        .into_iter()
        .filter(|e| ids.contains(&e.id))
        .map(|e| {
            let k = match e.kind {
                Kind::Tl => "tl",
                Kind::Rm => "rm",
                Kind::Other(_) => "other",
            };
            format!(
                "{}{}{}",
                k,
                if e.unwrap.is_some() { "+unwrap" } else { "" },
                if e.inline.is_some() { "+inline" } else { "" }
            )
        })
        .collect();
    v.sort();
    v.dedup();
    v.join(",")
}

/// One-shot cleaning of the original source in a brand-new process.
fn fresh_one_shot(scn: &C19Scn, orig: &str, now: (i64, i64), targets: &BTreeSet<String>) -> Result<String, String> {
    crate::iso::fresh_lib_call(&crate::iso::RefRequest {
        text: orig.to_string(),
        doc: scn.doc.clone(),
        offset: scn.offset.clone(),
        now,
        targets: targets.clone(),
        mode: Mode::Clean,
        json: false,
    })
}

fn compare_with_one_shot(scn: &C19Scn, after: &str, one_shot: &str) -> Option<(String, String, BTreeSet<u32>, BTreeSet<u32>)> {
    if strip_ws(one_shot) == strip_ws(after) {
        return None;
    }
    let got: BTreeSet<u32> = scn.doc.surviving_ids(after).into_iter().collect();
    let want: BTreeSet<u32> = scn.doc.surviving_ids(one_shot).into_iter().collect();
    let stranded: BTreeSet<u32> = got.difference(&want).copied().collect();
    let over: BTreeSet<u32> = want.difference(&got).copied().collect();
    let sig = if !stranded.is_empty() {
        format!("stranded:{}", describe(&scn.doc, &stranded))
    } else if !over.is_empty() {
        format!("over-removed:{}", describe(&scn.doc, &over))
    } else {
        "same-tags-different-text".to_string()
    };
    let inv = if !stranded.is_empty() { "C19.I3_no_stranded_tag" } else { "C19.I2_stepwise_equals_one_shot" };
    Some((inv.to_string(), sig, stranded, over))
}

/// The history as a library session: x1 = clean(x0, cfg1), x2 = clean(x1, cfg2), ... on one
/// thread; after every step the result must equal (up to whitespace) a one-shot cleaning of the
/// original computed in a brand-new process, and cleaning it again must change nothing.
fn run_session(scn: &C19Scn, stats: &mut RunStats) -> Option<Violation> {
    let orig = scn.doc.render();
    let fail = |inv: &str, sig: String, detail: String, step: usize| Some(Violation { invariant: inv.to_string(), signature: sig.replace(' ', "_"), detail, step });
    let mut targets: BTreeSet<String> = scn.initial_targets.iter().chain(scn.flag_targets.iter()).cloned().collect();
    let mut calls: Vec<SessionCall> = Vec::new();
    let mut steps: Vec<(usize, (i64, i64), BTreeSet<String>)> = Vec::new(); // (event index, now, targets)
    let mut env = BTreeMap::new();
    for (k, ev) in scn.events.iter().enumerate() {
        match ev {
            Event::ConfigGrows { name } => {
                targets.insert(name.clone());
                stats.bump("config_grows_fired");
            }
            Event::Tick(t) => {
                if steps.is_empty() {
                    env = t.env.clone();
                }
                let input = if calls.is_empty() { SessionInput::Text(orig.clone()) } else { SessionInput::OutputOf(calls.len() - 2) };
                calls.push(SessionCall { input, offset: scn.offset.clone(), now: t.now, targets: targets.clone() });
                // the same configuration once more, on the result
                calls.push(SessionCall { input: SessionInput::OutputOf(calls.len() - 1), offset: scn.offset.clone(), now: t.now, targets: targets.clone() });
                steps.push((k, t.now, targets.clone()));
            }
        }
    }
    if steps.is_empty() {
        return None;
    }
    stats.bump("library_sessions");
    let outs = library_session(&scn.doc, &env, calls);
    let mut changing = 0;
    let mut prev = orig.clone();
    for (i, (k, now, tg)) in steps.iter().enumerate() {
        stats.execs += 2;
        let (x, dup) = match (&outs[2 * i], &outs[2 * i + 1]) {
            (Ok(a), Ok(b)) => (a, b),
            _ => {
                stats.unevaluable = true;
                stats.bump("unevaluable_library_panics_on_intermediate_text");
                return None;
            }
        };
        stats.note(format!("event {}: session step now={:?} targets={:?}\n   text after step: {:?}", k, now, tg, x));
        fnv(&mut stats.fingerprint, format!("step|{:x}", hash_str(x)).as_bytes());
        fnv(&mut stats.log_hash, x.as_bytes());
        if *x != prev {
            changing += 1;
        }
        prev = x.clone();
        let one_shot = match fresh_one_shot(scn, &orig, *now, tg) {
            Ok(r) => r,
            Err(_) => {
                stats.unevaluable = true;
                stats.bump("unevaluable_reference_panicked");
                return None;
            }
        };
        stats.bump("fresh_process_references");
        if let Some((inv, sig, stranded, over)) = compare_with_one_shot(scn, x, &one_shot) {
            return fail(
                &inv,
                format!("session:{}", sig),
                format!(
                    "library session: after step {} (now={:?}, targets={:?}) the text differs from a one-shot cleaning of the original in a fresh process\n  stepwise {:?}\n  one-shot {:?}\n  stranded ids {:?} over-removed ids {:?}",
                    k, now, tg, x, one_shot, stranded, over
                ),
                *k,
            );
        }
        if dup != x {
            return fail(
                "C19.I1_idempotent",
                "session:dup-changes-text".into(),
                format!("library session: cleaning the result of step {} again with the same time and targets changed it\n  first  {:?}\n  second {:?}", k, x, dup),
                *k,
            );
        }
    }
    let (first, last) = (steps.first().unwrap().1, steps.last().unwrap().1);
    stats.sim_seconds = last.0 - first.0;
    if changing >= 2 {
        stats.bump("probe_history_with_two_or_more_removing_ticks");
    }
    stats.nontrivial = changing >= 2;
    None
}

pub fn run(scn: &C19Scn, stats: &mut RunStats) -> Option<Violation> {
    if scn.session {
        return run_session(scn, stats);
    }
    let orig = scn.doc.render();
    for e in scn.doc.elems() {
        if e.wrapper_inline.is_some() {
            stats.bump("probe_inline_element_on_unwrap_wrapper_line");
        }
        if e.unwrap_degenerate {
            stats.bump("probe_unwrap_block_that_cannot_be_unwrapped");
        }
    }
    let mut fs = Fs::new();
    fs.insert(SRC.to_string(), orig.clone().into_bytes());
    // the file that holds the current state, and the file the next run writes
    let mut cur: String = SRC.to_string();
    let mut nxt: String = if scn.pingpong || scn.rebuild { SRC_B.to_string() } else { SRC.to_string() };
    if scn.pingpong {
        stats.bump("probe_pingpong_history");
    }
    if scn.rebuild {
        stats.bump("probe_rebuild_history");
    }
    if scn.alias_spelling {
        stats.bump("probe_output_spelled_differently_from_input");
    }
    let mut cfg_text = String::new();
    for t in &scn.initial_targets {
        cfg_text.push_str(t);
        cfg_text.push('\n');
    }
    fs.insert(CFG.to_string(), cfg_text.into_bytes());
    let mut targets: BTreeSet<String> = scn.initial_targets.iter().chain(scn.flag_targets.iter()).cloned().collect();
    let mut first_t: Option<i64> = None;
    let mut last_t: (i64, i64) = (0, 0);
    // running maximum of the instants the committed runs may have used (envelope low / high):
    // the file reflects every earlier run, so the configuration that counts is the latest one
    let mut eff_lo: (i64, i64) = (i64::MIN, 0);
    let mut eff_hi: (i64, i64) = (i64::MIN, 0);
    let mut changing_ticks = 0;
    let mut perturbed = false;
    let mut prev_env: Option<BTreeMap<String, String>> = None;
    let mut last_committed_removed = false;

    let fail = |inv: &str, sig: String, detail: String, step: usize| Some(Violation { invariant: inv.to_string(), signature: sig.replace(' ', "_"), detail, step });

    for (k, ev) in scn.events.iter().enumerate() {
        match ev {
            Event::ConfigGrows { name } => {
                let f = fs.get_mut(CFG).unwrap();
                f.extend_from_slice(name.as_bytes());
                f.push(b'\n');
                targets.insert(name.clone());
                stats.bump("config_grows_fired");
                stats.note(format!("event {}: config grows by {:?}", k, name));
                fnv(&mut stats.fingerprint, b"grow");
                perturbed = true;
                last_committed_removed = false;
            }
            Event::Tick(t) => {
                first_t.get_or_insert(t.now.0);
                last_t = last_t.max(t.now);
                let before = String::from_utf8_lossy(&fs[&cur]).into_owned();
                let dest_before: Option<Vec<u8>> = fs.get(&nxt).cloned();
                let mut crashed_mid_protocol = false;
                let ex = tick_exec(scn, t, &cur, &nxt);
                let out = execute(&mut fs, &ex, crate::cli::run);
                let after_bytes = fs.get(&nxt).cloned().unwrap_or_default();
                stats.note(format!("event {}: tick[{}] now={:?} argv={:?} env={:?}", k, t.label, t.now, ex.argv, ex.env));
                stats.absorb(&format!("tick:{}", t.label), &out, &after_bytes);
                stats.note(format!("   file after tick: {:?}", String::from_utf8_lossy(&after_bytes)));
                match t.label.as_str() {
                    "dup" => stats.bump("tick_dup_fired"),
                    "delayed" => stats.bump("tick_delayed_fired"),
                    "after_lost" => stats.bump("tick_lost_fired"),
                    "step_fwd" => stats.bump("clock_step_fwd_fired"),
                    "retry" => stats.bump("tick_retry_fired"),
                    _ => {}
                }
                if let Some(pe) = &prev_env {
                    if pe.get("TZ") != t.env.get("TZ") {
                        stats.bump("tz_change_fired");
                        perturbed = true;
                    }
                }
                prev_env = Some(t.env.clone());
                if let TickTime::Clock { tick_ns } = &t.time {
                    if *tick_ns < 0 {
                        stats.bump("clock_steps_back_during_run_fired");
                        perturbed = true;
                    }
                    if *tick_ns > 0 {
                        stats.bump("clock_tick_per_read_fired");
                        perturbed = true;
                    }
                }
                if any_soft_fault(&out) || t.label != "cron" {
                    perturbed = true;
                }
                if t.label == "dup" && last_committed_removed {
                    stats.bump("probe_duplicate_tick_right_after_removing_tick");
                }
                let after = match String::from_utf8(after_bytes.clone()) {
                    Ok(s) => s,
                    Err(_) => {
                        if matches!(out.status, Status::Crash(_)) {
                            // a crash in the middle of a write may cut a character in two
                            stats.bump("crash_mid_commit_probe");
                            return None;
                        }
                        return fail("C19.file_is_utf8", "not-utf8".into(), "the file is no longer valid UTF-8".into(), k);
                    }
                };
                match &out.status {
                    Status::Crash("before_open_write") => {
                        stats.bump("crash_before_commit_fired");
                        perturbed = true;
                        if !scn.pingpong && !scn.rebuild && after != before {
                            stats.bump("probe_crash_before_commit_changed_file");
                        }
                        last_committed_removed = false;
                        continue;
                    }
                    Status::Crash("at_exit") => {
                        stats.bump("crash_after_commit_fired");
                        perturbed = true;
                    }
                    Status::Crash("after_fs_op") => {
                        // died somewhere inside its commit protocol.  Destination untouched: nothing
                        // was committed, the supervisor retries.  Destination changed: either the new
                        // state is complete (then everything below applies) or it is torn (for the
                        // shipped truncate-then-write protocol that is the known "source lost"
                        // behaviour: counted, history ends).
                        stats.bump("crash_inside_commit_protocol_fired");
                        perturbed = true;
                        if fs.get(&nxt).cloned() == dest_before {
                            last_committed_removed = false;
                            continue;
                        }
                        crashed_mid_protocol = true;
                    }
                    Status::Crash(_) => {
                        // crash between truncate and the last write: the source is lost (non-gating probe)
                        stats.bump("crash_mid_commit_probe");
                        return None;
                    }
                    Status::Exit(0) => {}
                    other => {
                        // does the library fail on this very input when called directly?
                        let direct = lib_call(&before, &scn.doc, &scn.offset, t.now, &targets, Mode::Clean, false);
                        if direct.is_err() {
                            // The library itself fails on the text the earlier runs left behind.  If a
                            // one-shot cleaning of the ORIGINAL with this configuration succeeds (in a
                            // fresh process), step-by-step cleaning has failed where cleaning once
                            // works: a composition failure.  If the one-shot fails too, the input is
                            // simply outside what the library can process (totality, C01).
                            if before != orig && fresh_one_shot(scn, &orig, t.now, &targets).is_ok() {
                                return fail(
                                    "C19.stepwise_run_fails_where_one_shot_succeeds",
                                    "panic-on-own-output".into(),
                                    format!(
                                        "tick {} (now={:?}, targets={:?}) ended with {:?} on the text an earlier run produced, while cleaning the original once with this configuration succeeds\n  text left by the earlier runs: {:?}",
                                        k, t.now, targets, other, before
                                    ),
                                    k,
                                );
                            }
                            stats.unevaluable = true;
                            stats.bump("unevaluable_library_panics_on_intermediate_text");
                            return None;
                        }
                        return fail(
                            "C19.tick_completes",
                            format!("status:{:?}", other).chars().take(60).collect(),
                            format!("tick {} ended with {:?}; stderr={:?}", k, other, String::from_utf8_lossy(&out.stderr)),
                            k,
                        );
                    }
                }
                // --- committed tick: the state moves to the file just written ------
                if scn.pingpong {
                    std::mem::swap(&mut cur, &mut nxt);
                }
                // --- committed tick: I2 / I3 -------------------------------------
                if after != before {
                    changing_ticks += 1;
                    last_committed_removed = true;
                } else {
                    last_committed_removed = false;
                }
                // The instant this run used lies somewhere in the envelope of its clock readings; the
                // configuration that counts is the latest one any committed run used, so the possible
                // effective instants form the range [max(lo, eff_lo), max(hi, eff_hi)].  Readiness
                // only changes at expiry instants: the end points plus the expiries in between are
                // all the candidates there are.
                let raw_cands = candidate_instants(t, &out);
                // (a rebuild history starts from the untouched source every time: there the result
                // depends on this run's instant alone, not on what earlier runs used)
                let (a, b) = if scn.rebuild {
                    (*raw_cands.first().unwrap(), *raw_cands.last().unwrap())
                } else {
                    ((*raw_cands.first().unwrap()).max(eff_lo), (*raw_cands.last().unwrap()).max(eff_hi))
                };
                let mut cands: Vec<(i64, i64)> = vec![a, b];
                for e in expiries() {
                    if (e, 0) > a && (e, 0) < b {
                        cands.push((e, 0));
                    }
                }
                cands.sort();
                cands.dedup();
                eff_lo = a;
                eff_hi = b;
                last_t = last_t.max(eff_hi);
                // distinct one-shot results over the envelope of possible "now" values
                let mut refs: Vec<String> = Vec::new();
                for c in &cands {
                    match lib_call(&orig, &scn.doc, &scn.offset, *c, &targets, Mode::Clean, false) {
                        Ok(r) => {
                            if !refs.contains(&r) {
                                refs.push(r);
                            }
                        }
                        Err(_) => {
                            stats.unevaluable = true;
                            stats.bump("unevaluable_reference_panicked");
                            return None;
                        }
                    }
                }
                let matched = refs.iter().any(|r| strip_ws(r) == strip_ws(&after));
                if !matched && crashed_mid_protocol {
                    stats.bump("crash_mid_commit_probe");
                    return None; // torn destination: no listed property says what must be there
                }
                if !matched {
                    let last_ref = refs.last().cloned().unwrap_or_default();
                    let got: BTreeSet<u32> = scn.doc.surviving_ids(&after).into_iter().collect();
                    let want: BTreeSet<u32> = scn.doc.surviving_ids(&last_ref).into_iter().collect();
                    let stranded: BTreeSet<u32> = got.difference(&want).copied().collect();
                    let over: BTreeSet<u32> = want.difference(&got).copied().collect();
                    let sig = if !stranded.is_empty() {
                        format!("stranded:{}", describe(&scn.doc, &stranded))
                    } else if !over.is_empty() {
                        format!("over-removed:{}", describe(&scn.doc, &over))
                    } else {
                        "same-tags-different-text".to_string()
                    };
                    let inv = if !stranded.is_empty() { "C19.I3_no_stranded_tag" } else { "C19.I2_stepwise_equals_one_shot" };
                    return fail(
                        inv,
                        sig,
                        format!(
                            "after tick {} (now={:?}, targets={:?}) the file differs from the one-shot result beyond whitespace\n  stepwise {:?}\n  one-shot {:?}\n  stranded ids {:?} over-removed ids {:?}",
                            k, t.now, targets, after, last_ref, stranded, over
                        ),
                        k,
                    );
                }
                // --- I1: an immediate duplicate with the same configuration is a no-op ---
                // (after a crash inside the commit protocol the destination may be complete only up to
                // white space: the byte-exact duplicate check does not apply to that run)
                if refs.len() == 1 && !crashed_mid_protocol {
                    let mut fs2 = fs.clone();
                    let mut t2 = t.clone();
                    t2.io = IoPlan::default();
                    // same configuration: the (unambiguous) time and the same targets
                    t2.now = *cands.last().unwrap();
                    t2.time = match &t.time {
                        TickTime::Clock { .. } => TickTime::Clock { tick_ns: 0 },
                        x => x.clone(),
                    };
                    let ex2 = tick_exec(scn, &t2, &cur, &nxt);
                    let out2 = execute(&mut fs2, &ex2, crate::cli::run);
                    let again = fs2.get(&nxt).cloned().unwrap_or_default();
                    stats.absorb("shadow-dup", &out2, &again);
                    if !matches!(out2.status, Status::Exit(0)) && again == after_bytes {
                        // the run failed without touching the file: a totality matter (C01) if the
                        // library fails on this very text when called directly
                        if lib_call(&after, &scn.doc, &scn.offset, t.now, &targets, Mode::Clean, false).is_err() {
                            // the run succeeded, cleaning its output again fails: not idempotent in
                            // the plainest sense (unless nothing was cleaned at all: then the original
                            // itself is outside what the library can process)
                            if after != orig {
                                return fail(
                                    "C19.I1_idempotent",
                                    "second-run-fails-on-own-output".into(),
                                    format!(
                                        "cleaning the output of tick {} again with the same time and targets fails ({:?})\n  output of the first run: {:?}",
                                        k, out2.status, after
                                    ),
                                    k,
                                );
                            }
                            stats.unevaluable = true;
                            stats.bump("unevaluable_library_panics_on_intermediate_text");
                            return None;
                        }
                    }
                    if !matches!(out2.status, Status::Exit(0)) || again != after_bytes {
                        return fail(
                            "C19.I1_idempotent",
                            "dup-changes-file".into(),
                            format!(
                                "cleaning the output of tick {} again with the same time and targets changed it\n  first  {:?}\n  second {:?} (status {:?})",
                                k,
                                after,
                                String::from_utf8_lossy(&again),
                                out2.status
                            ),
                            k,
                        );
                    }
                } else {
                    stats.bump("probe_ambiguous_clock_envelope");
                }
            }
        }
    }
    // --- convergence: once faults stop, one run at the final configuration reaches
    //     the one-shot result and a second one changes nothing -------------------
    if first_t.is_some() {
        let final_tick = Tick {
            now: last_t,
            time: TickTime::Explicit { zone_off: 0, zulu: true, decoy: ClockSpec { sec: 0, nsec: 0, tick_ns: 0 }, spelling: 0 },
            env: BTreeMap::new(),
            io: IoPlan::default(),
            label: "final".into(),
        };
        let ex = tick_exec(scn, &final_tick, &cur, &nxt);
        let input_before_final = fs.get(&cur).cloned().unwrap_or_default();
        let out = execute(&mut fs, &ex, crate::cli::run);
        let after = fs.get(&nxt).cloned().unwrap_or_default();
        stats.absorb("final", &out, &after);
        let k = scn.events.len();
        if matches!(out.status, Status::Exit(0)) {
            // the reference for convergence comes from a brand-new process
            let one_shot = match fresh_one_shot(scn, &orig, last_t, &targets) {
                Ok(r) => r,
                Err(e) => {
                    stats.unevaluable = true;
                    stats.bump("unevaluable_reference_panicked");
                    stats.note(format!("one-shot reference failed: {}", e));
                    return None;
                }
            };
            stats.bump("fresh_process_references");
            let after_s = String::from_utf8_lossy(&after).into_owned();
            if strip_ws(&one_shot) != strip_ws(&after_s) {
                let got: BTreeSet<u32> = scn.doc.surviving_ids(&after_s).into_iter().collect();
                let want: BTreeSet<u32> = scn.doc.surviving_ids(&one_shot).into_iter().collect();
                let stranded: BTreeSet<u32> = got.difference(&want).copied().collect();
                let sig = if stranded.is_empty() { "no-convergence".to_string() } else { format!("stranded:{}", describe(&scn.doc, &stranded)) };
                return fail(
                    "C19.convergence",
                    sig,
                    format!("one further run at the final configuration does not reach the one-shot result\n  stepwise {:?}\n  one-shot {:?}", after_s, one_shot),
                    k,
                );
            }
            if scn.pingpong {
                std::mem::swap(&mut cur, &mut nxt);
            }
            let ex = tick_exec(scn, &final_tick, &cur, &nxt);
            let out2 = execute(&mut fs, &ex, crate::cli::run);
            let again = fs.get(&nxt).cloned().unwrap_or_default();
            stats.absorb("final-dup", &out2, &again);
            if again != after {
                return fail("C19.I1_idempotent", "dup-changes-file".into(), "a second run at the final configuration changed the file".into(), k);
            }
        } else {
            let before = String::from_utf8_lossy(&input_before_final).into_owned();
            if lib_call(&before, &scn.doc, &scn.offset, last_t, &targets, Mode::Clean, false).is_err() {
                if before != orig && fresh_one_shot(scn, &orig, last_t, &targets).is_ok() {
                    return fail(
                        "C19.stepwise_run_fails_where_one_shot_succeeds",
                        "panic-on-own-output".into(),
                        format!("the final run ended with {:?} on the text the earlier runs produced, while cleaning the original once with the final configuration succeeds\n  text left by the earlier runs: {:?}", out.status, before),
                        k,
                    );
                }
                stats.unevaluable = true;
                stats.bump("unevaluable_library_panics_on_intermediate_text");
                return None;
            }
            return fail("C19.tick_completes", "final".into(), format!("final run ended with {:?}", out.status), k);
        }
    }
    stats.sim_seconds = first_t.map_or(0, |f| last_t.0 - f);
    if changing_ticks >= 2 {
        stats.bump("probe_history_with_two_or_more_removing_ticks");
    }
    stats.nontrivial = changing_ticks >= 2 && perturbed;
    None
}

pub fn shrink_candidates(s: &C19Scn) -> Vec<C19Scn> {
    let mut out = Vec::new();
    for i in 0..s.events.len() {
        let mut c = s.clone();
        c.events.remove(i);
        out.push(c);
    }
    for d in s.doc.shrink_candidates() {
        let mut c = s.clone();
        c.doc = d;
        out.push(c);
    }
    for i in 0..s.initial_targets.len() {
        let mut c = s.clone();
        c.initial_targets.remove(i);
        out.push(c);
    }
    for i in 0..s.flag_targets.len() {
        let mut c = s.clone();
        c.flag_targets.remove(i);
        out.push(c);
    }
    if s.pingpong {
        let mut c = s.clone();
        c.pingpong = false;
        out.push(c);
    }
    if s.rebuild {
        let mut c = s.clone();
        c.rebuild = false;
        out.push(c);
    }
    if s.alias_spelling {
        let mut c = s.clone();
        c.alias_spelling = false;
        out.push(c);
    }
    if s.offset != "+00:00" {
        // keep the wall-clock `to` strings, move to UTC: only valid if the violation persists
        let mut c = s.clone();
        c.offset = "+00:00".into();
        out.push(c);
    }
    for (i, ev) in s.events.iter().enumerate() {
        if let Event::Tick(t) = ev {
            let mut push = |nt: Tick| {
                if nt != *t {
                    let mut c = s.clone();
                    c.events[i] = Event::Tick(nt);
                    out.push(c);
                }
            };
            let mut nt = t.clone();
            nt.io = IoPlan::default();
            push(nt);
            let mut nt = t.clone();
            nt.env.clear();
            push(nt);
            let mut nt = t.clone();
            nt.time = TickTime::Explicit { zone_off: 0, zulu: true, decoy: ClockSpec::default(), spelling: 0 };
            push(nt);
            let mut nt = t.clone();
            nt.now.1 = 0;
            push(nt);
            let mut nt = t.clone();
            nt.label = "cron".into();
            push(nt);
        }
    }
    out
}

pub fn sample(s: &C19Scn) -> serde_json::Value {
    let events: Vec<serde_json::Value> = s
        .events
        .iter()
        .map(|e| match e {
            Event::ConfigGrows { name } => serde_json::json!({"config_grows": name}),
            Event::Tick(t) => {
                let ex = tick_exec(s, t, SRC, if s.pingpong || s.rebuild { SRC_B } else { SRC });
                serde_json::json!({"tick": t.label, "now": [t.now.0, t.now.1], "argv": ex.argv, "env": ex.env, "clock": [ex.clock.sec, ex.clock.nsec, ex.clock.tick_ns], "io_plan": t.io})
            }
        })
        .collect();
    serde_json::json!({"library_session": s.session, "pingpong": s.pingpong, "source": s.doc.render(), "offset": s.offset, "initial_targets": s.initial_targets, "flag_targets": s.flag_targets, "events": events})
}
