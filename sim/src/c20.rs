//! C20 — the CLI is a faithful wrapper: I/O paths, config file, defaults, environment.
//!
//! One scenario = one document + one option set + a bundle of variants that
//! differ only in things C20 says must not matter.  Every variant is executed
//! as a simulated process running the real `main.rs`; the delivered bytes must
//! equal the real library called directly with the corresponding configuration.

use crate::common::*;
use crate::doc::{self, AttrVal, Doc, GenParams};
use crate::reftime;
use crate::rng::Rng;
use crate::world::{execute, ClockSpec, CrashAt, Exec, Fs, HardFault, IoPlan, Status, StdinSpec};
use serde::{Deserialize, Serialize};
use std::collections::{BTreeMap, BTreeSet};

#[derive(Clone, Debug, Serialize, Deserialize, PartialEq)]
pub enum Input {
    File { path: String, short_flag: bool },
    Stdin,
}

#[derive(Clone, Debug, Serialize, Deserialize, PartialEq)]
pub enum Output {
    Stdout,
    /// `preexisting`: content the path holds before the run (None = path is new)
    File { path: String, short_flag: bool, preexisting: Option<String> },
    /// --output names the input file
    SameAsInput { short_flag: bool },
}

#[derive(Clone, Debug, Serialize, Deserialize, PartialEq)]
pub enum TimeSource {
    /// --time-limited-current given in this zone; the simulated clock holds a decoy
    Explicit {
        zone_off: i64,
        zulu: bool,
        decoy: ClockSpec,
        /// relaxed spellings of the instant (see reftime::format_time_spelled)
        #[serde(default)]
        spelling: u8,
    },
    /// option omitted; the frozen simulated clock holds the instant
    Clock,
}

#[derive(Clone, Debug, Serialize, Deserialize, PartialEq)]
pub struct ConfigFile {
    pub path: String,
    pub crlf: bool,
    pub final_newline: bool,
    /// indices into `targets` that go to the file (in this order; may repeat)
    pub lines: Vec<usize>,
}

#[derive(Clone, Debug, Serialize, Deserialize, PartialEq)]
pub struct Variant {
    pub input: Input,
    pub output: Output,
    pub time: TimeSource,
    /// indices into `targets` passed as --removal-marker-target-name flags
    pub flag_targets: Vec<usize>,
    pub config: Option<ConfigFile>,
    /// `--opt=value` (true) or `--opt value` (false), per option position
    pub eq_form: u32,
    /// pass documented defaults explicitly even where they could be omitted (bit per option)
    pub explicit_defaults: u8,
    /// seed of the permutation of the option order
    pub order: u64,
    pub short_mode_flag: bool,
    pub env: BTreeMap<String, String>,
    pub io: IoPlan,
    /// unrelated files present in the file system (conservation check)
    pub bystanders: Vec<(String, String)>,
    /// standard output is a terminal
    #[serde(default)]
    pub stdout_tty: bool,
    /// `--output` names the input file by another spelling of its path (`./x` for `x`)
    #[serde(default)]
    pub alias_spelling: bool,
    /// write `-l` together with the next short option (`-lf path`, `-lfpath`)
    #[serde(default)]
    pub combine_short: bool,
    /// the input path behaves like a FIFO / `/dev/stdin` / process substitution: it delivers the
    /// data but its metadata reports size 0
    #[serde(default)]
    pub input_sizeless: bool,
}

/// Hard faults, where C20 promises nothing: executed as non-gating probes (counted in the
/// evidence file, never turned into a violation).
#[derive(Clone, Debug, Serialize, Deserialize, PartialEq)]
pub enum ProbeKind {
    EioRead(u32),
    InputMissing,
    ConfigMissing,
    EaccesOutput,
    EnospcWrite(u32),
    EpipeStdout(u32),
    InvalidUtf8Input,
    InvalidUtf8ConfigLine,
    StdinIsTty,
    CrashAfterTruncate,
    CrashMidWrite(usize),
}

#[derive(Clone, Debug, Serialize, Deserialize, PartialEq)]
pub struct HardProbe {
    /// index of the variant the probe is derived from
    pub base: usize,
    pub kind: ProbeKind,
}

#[derive(Clone, Debug, Serialize, Deserialize, PartialEq)]
pub struct C20Scn {
    pub doc: Doc,
    pub mode: Mode,
    pub json: bool,
    /// None = option omitted (documented default +00:00)
    pub offset: Option<String>,
    pub now: (i64, i64),
    pub targets: Vec<String>,
    pub variants: Vec<Variant>,
    #[serde(default)]
    pub probes: Vec<HardProbe>,
}

pub const NAME_POOL: &[&str] = &[
    "feature1", "feature2", "feature", "Feature1", "feature10", "f", "vec![]", "", "removal-marker", "time-limited",
    "+00:00", "機能A", "a b", "x=y", "--flag", "<!-- <", "> -->", "true",
    // characters that option parsers or config readers like to treat as separators
    "exp-1,variant-b", "a;b", "a:b", "a|b", " lead", "trail ", "tab\there", "#comment", "a,b,c",
];

const NEW_YEAR: i64 = 1_704_067_200; // 2024-01-01T00:00:00Z

fn gen_variant(rng: &mut Rng, scn_targets: usize, doc: &Doc, mode: Mode) -> Variant {
    let in_path = rng.pick(&["src.txt", "dir/input.js", "コード.html", "a b.txt"]).to_string();
    let input = if rng.chance(2, 3) {
        Input::File { path: in_path.clone(), short_flag: rng.chance(1, 3) }
    } else {
        Input::Stdin
    };
    let output = match rng.below(6) {
        0 | 1 => Output::Stdout,
        2 => Output::File { path: "out.txt".into(), short_flag: rng.chance(1, 3), preexisting: None },
        3 => {
            // pre-existing, longer or shorter than the result
            let pre = if rng.chance(1, 2) {
                "STALE ".repeat(400)
            } else {
                "s\n".to_string()
            };
            Output::File { path: "out.txt".into(), short_flag: rng.chance(1, 3), preexisting: Some(pre) }
        }
        _ => {
            if matches!(input, Input::File { .. }) && mode == Mode::Clean {
                Output::SameAsInput { short_flag: rng.chance(1, 3) }
            } else if matches!(input, Input::File { .. }) {
                // list modes to the input path are legal too (the file is replaced by the list)
                if rng.chance(1, 3) {
                    Output::SameAsInput { short_flag: false }
                } else {
                    Output::Stdout
                }
            } else {
                Output::File { path: "out.txt".into(), short_flag: false, preexisting: None }
            }
        }
    };
    let time = if rng.chance(3, 5) {
        let zone_off = rng.range(-48, 56) * 900;
        TimeSource::Explicit {
            zone_off,
            zulu: rng.chance(1, 2),
            decoy: ClockSpec { sec: *rng.pick(&[0i64, 946_684_800, 4_102_444_800, 253_402_300_799]), nsec: rng.range(0, 999_999_999), tick_ns: 0 },
            spelling: if rng.chance(1, 3) { rng.below(8) as u8 } else { 0 },
        }
    } else {
        TimeSource::Clock
    };
    // split the targets between flags and the config file
    let mut flag_targets = Vec::new();
    let mut file_lines = Vec::new();
    let how = rng.below(4); // 0: all flags, 1: all file, 2/3: mixed
    for i in 0..scn_targets {
        let to_file = match how {
            0 => false,
            1 => true,
            _ => rng.chance(1, 2),
        };
        if to_file {
            file_lines.push(i);
        } else {
            flag_targets.push(i);
        }
        // duplicates across / within
        if rng.chance(1, 6) {
            if rng.chance(1, 2) {
                file_lines.push(i);
            } else {
                flag_targets.push(i);
            }
        }
    }
    // shuffle file lines
    for i in (1..file_lines.len()).rev() {
        let j = rng.usize(i + 1);
        file_lines.swap(i, j);
    }
    let config = if !file_lines.is_empty() || (how == 1 && rng.chance(1, 2)) {
        Some(ConfigFile {
            path: rng.pick(&["targets.txt", "conf/targets", "out.cfg"]).to_string(),
            crlf: rng.chance(1, 4),
            final_newline: rng.chance(3, 4),
            lines: file_lines,
        })
    } else {
        None
    };
    let mut bystanders = Vec::new();
    if rng.chance(1, 2) {
        bystanders.push(("other.txt".to_string(), "unrelated\n".to_string()));
    }
    if rng.chance(1, 4) {
        bystanders.push(("src.txt.bak".to_string(), "old backup\n".to_string()));
    }
    let _ = doc;
    Variant {
        input,
        output,
        time,
        flag_targets,
        config,
        eq_form: rng.next() as u32,
        explicit_defaults: if rng.chance(1, 2) { 0 } else { rng.next() as u8 },
        order: rng.next(),
        short_mode_flag: rng.chance(1, 2),
        env: {
            let mut env = gen_env(rng);
            // variables that terminal-aware programs like to honour; none of them may matter
            if rng.chance(1, 6) {
                let (k, v) = *rng.pick(&[("NO_COLOR", "1"), ("CLICOLOR", "0"), ("CLICOLOR_FORCE", "1"), ("TERM", "dumb"), ("TERM", "xterm-256color"), ("COLUMNS", "40")]);
                env.insert(k.to_string(), v.to_string());
            }
            env
        },
        io: gen_io(rng),
        bystanders,
        stdout_tty: rng.chance(1, 5),
        input_sizeless: rng.chance(1, 8),
        combine_short: rng.chance(1, 3),
        alias_spelling: rng.chance(1, 3),
    }
}

pub fn generate(seed: u64) -> C20Scn {
    let mut rng = Rng::new(seed);
    // expiry instants E1<E2<E3 around `now`
    // the base instant: New Year, or inside a daylight-saving transition of one of the zones
    // the TZ pool contains (repeated / skipped local hour), where a conversion through local
    // wall-clock time is ambiguous or impossible
    #[allow(non_snake_case)]
    let E_BASE: i64 = *rng.pick(&[
        NEW_YEAR, NEW_YEAR, NEW_YEAR,
        1_730_626_200, // 2024-11-03T09:30:00Z  America/Los_Angeles: 01:30 happens twice
        1_729_989_000, // 2024-10-27T00:30:00Z  Europe/London: 01:30 happens twice
        1_710_066_600, // 2024-03-10T10:30:00Z  America/Los_Angeles: 02:30 does not exist
        1_711_848_600, // 2024-03-31T01:30:00Z  Europe/London: 01:30 does not exist
        1_712_417_400, // 2024-04-06T15:30:00Z  Australia/Lord_Howe: half-hour shift
    ]);
    let e = [E_BASE - 86_400, E_BASE, E_BASE + 1, E_BASE + 86_400 * 400];
    let off_secs = if rng.chance(1, 2) { 0 } else { rng.range(-48, 56) * 900 };
    let offset = if off_secs == 0 && rng.chance(2, 3) { None } else { Some(reftime::format_offset(off_secs, rng.chance(1, 2))) };
    let tos: Vec<Option<AttrVal>> = e
        .iter()
        .map(|x| Some(AttrVal::Val(reftime::format_wall(x + off_secs))))
        .chain([Some(AttrVal::Val("2024/01/01 00:00:00".into())), None, Some(AttrVal::Bare)])
        .collect();
    let n_targets = rng.usize(5);
    let mut targets = Vec::new();
    for _ in 0..n_targets {
        let t = rng.pick(NAME_POOL).to_string();
        if !targets.contains(&t) {
            targets.push(t);
        }
    }
    // element names: mostly from targets ∪ near misses
    let mut names: Vec<Option<AttrVal>> = NAME_POOL.iter().map(|n| Some(AttrVal::Val(n.to_string()))).collect();
    for t in &targets {
        for _ in 0..3 {
            names.push(Some(AttrVal::Val(t.clone())));
        }
    }
    names.push(None);
    names.push(Some(AttrVal::Bare));
    let p = GenParams {
        max_elems: 7,
        max_depth: 3,
        tos: &tos,
        names: &names,
        allow_unwrap: true,
        allow_wrapper_layouts: true,
        allow_inline: true,
        allow_multiline_tag: true,
        allow_other: true,
        allow_skip: true,
        tl_eighths: 3,
        crlf_eighths: 1,
        large_inputs: true,
        default_config_eighths: 4,
    };
    let mut doc = doc::generate(&mut rng, &p);
    if rng.chance(1, 300) {
        // degenerate inputs: nothing at all, or a single (blank) line
        doc.nodes = if rng.chance(1, 2) { vec![] } else { vec![doc::Node::Line(String::new())] };
        doc.pad = None;
    }
    if rng.chance(1, 50) {
        // a legal if odd configuration: the same tag name for both kinds of element
        doc.rm_tag = doc.tl_tag.clone();
    }
    sanitize_names(&mut doc);
    crate::c19::avoid_known_c01_panic(&mut doc);
    let mode = *rng.pick(&[Mode::Clean, Mode::Clean, Mode::Clean, Mode::List, Mode::ListAll]);
    let json = mode != Mode::Clean && rng.chance(1, 2);
    let now_sec = *rng.pick(&[E_BASE - 1, E_BASE, E_BASE + 1, E_BASE - 600, E_BASE + 600, E_BASE - 86_400, E_BASE + 86_400 * 30, E_BASE - 86_400 * 365]);
    let now_nsec = *rng.pick(&[0i64, 0, 1, 999_999_999, 500_000_000]);
    let n_variants = 3 + rng.usize(5);
    let variants: Vec<Variant> = (0..n_variants).map(|_| gen_variant(&mut rng, targets.len(), &doc, mode)).collect();
    let mut probes = Vec::new();
    if rng.chance(1, 3) {
        let base = rng.usize(variants.len());
        let kind = match rng.below(11) {
            0 => ProbeKind::EioRead(rng.below(3) as u32),
            1 => ProbeKind::InputMissing,
            2 => ProbeKind::ConfigMissing,
            3 => ProbeKind::EaccesOutput,
            4 => ProbeKind::EnospcWrite(rng.below(2) as u32),
            5 => ProbeKind::EpipeStdout(rng.below(2) as u32),
            6 => ProbeKind::InvalidUtf8Input,
            7 => ProbeKind::InvalidUtf8ConfigLine,
            8 => ProbeKind::StdinIsTty,
            9 => ProbeKind::CrashAfterTruncate,
            _ => ProbeKind::CrashMidWrite(rng.usize(40)),
        };
        probes.push(HardProbe { base, kind });
    }
    C20Scn { doc, mode, json, offset, now: (now_sec, now_nsec), targets, variants, probes }
}

/// A marker name that contains a delimiter or its own quote cannot be written
/// as an attribute value; replace such names.
fn sanitize_names(doc: &mut Doc) {
    let (ds, de) = (doc.ds.clone(), doc.de.clone());
    let first_de = de.chars().next();
    for el in doc.elems_mut() {
        if let Some(AttrVal::Val(n)) = &el.name {
            let bad = n.contains(&ds)
                || n.contains(&de)
                || n.contains('"')
                || n.contains('\'')
                || first_de.map_or(false, |c| n.contains(c))
                || n.contains(ds.chars().next().unwrap());
            if bad {
                el.name = Some(AttrVal::Val("feature1".into()));
            }
        }
    }
}

fn config_bytes(scn: &C20Scn, c: &ConfigFile) -> Vec<u8> {
    let nl = if c.crlf { "\r\n" } else { "\n" };
    let mut s = String::new();
    for (k, i) in c.lines.iter().enumerate() {
        if k > 0 {
            s.push_str(nl);
        }
        s.push_str(&scn.targets[*i]);
    }
    // `lines()` semantics: a last line that is empty only exists if it is terminated
    let last_is_empty = c.lines.last().map_or(false, |i| scn.targets[*i].is_empty());
    if (c.final_newline || last_is_empty) && !c.lines.is_empty() {
        s.push_str(nl);
    }
    s.into_bytes()
}

/// The target set the documented meaning of the options denotes.
pub fn target_set(scn: &C20Scn, v: &Variant) -> BTreeSet<String> {
    let mut set = BTreeSet::new();
    for i in &v.flag_targets {
        set.insert(scn.targets[*i].clone());
    }
    if let Some(c) = &v.config {
        for i in &c.lines {
            set.insert(scn.targets[*i].clone());
        }
    }
    set
}

fn shuffle<T>(v: &mut Vec<T>, seed: u64) {
    let mut r = Rng::new(seed);
    for i in (1..v.len()).rev() {
        let j = r.usize(i + 1);
        v.swap(i, j);
    }
}

pub fn build_exec(scn: &C20Scn, v: &Variant, text: &str) -> (Fs, Exec, Option<String>) {
    let mut fs = Fs::new();
    for (p, c) in &v.bystanders {
        fs.insert(p.clone(), c.clone().into_bytes());
    }
    let mut opts: Vec<(String, Option<String>)> = Vec::new();
    let mut stdin = StdinSpec::Tty;
    let mut in_path = None;
    match &v.input {
        Input::File { path, short_flag } => {
            fs.insert(path.clone(), text.as_bytes().to_vec());
            opts.push(((if *short_flag { "-f" } else { "--filename" }).into(), Some(path.clone())));
            in_path = Some(path.clone());
        }
        Input::Stdin => stdin = StdinSpec::Pipe(text.to_string()),
    }
    let mut out_path = None;
    match &v.output {
        Output::Stdout => {}
        Output::File { path, short_flag, preexisting } => {
            if let Some(pre) = preexisting {
                fs.insert(path.clone(), pre.clone().into_bytes());
            }
            opts.push(((if *short_flag { "-o" } else { "--output" }).into(), Some(path.clone())));
            out_path = Some(path.clone());
        }
        Output::SameAsInput { short_flag } => {
            let p = in_path.clone().expect("SameAsInput needs a file input");
            // the same file, possibly spelled differently
            let spelled = if v.alias_spelling { format!("./{}", p.replacen('/', "//", 1)) } else { p.clone() };
            opts.push(((if *short_flag { "-o" } else { "--output" }).into(), Some(spelled)));
            out_path = Some(p);
        }
    }
    let d = &scn.doc;
    let x = v.explicit_defaults;
    if d.ds != doc::DEFAULT_DS || x & 1 != 0 {
        opts.push(("--delimiter-start".into(), Some(d.ds.clone())));
    }
    if d.de != doc::DEFAULT_DE || x & 2 != 0 {
        opts.push(("--delimiter-end".into(), Some(d.de.clone())));
    }
    if d.tl_tag != doc::DEFAULT_TL || x & 4 != 0 {
        opts.push(("--time-limited-tag-name".into(), Some(d.tl_tag.clone())));
    }
    if d.rm_tag != doc::DEFAULT_RM || x & 8 != 0 {
        opts.push(("--removal-marker-tag-name".into(), Some(d.rm_tag.clone())));
    }
    match &scn.offset {
        Some(o) => opts.push(("--time-limited-time-offset".into(), Some(o.clone()))),
        None => {
            if x & 16 != 0 {
                opts.push(("--time-limited-time-offset".into(), Some("+00:00".into())));
            }
        }
    }
    let clock = match &v.time {
        TimeSource::Explicit { zone_off, zulu, decoy, spelling } => {
            opts.push(("--time-limited-current".into(), Some(reftime::format_time_spelled(scn.now.0, scn.now.1, *zone_off, *zulu, *spelling))));
            decoy.clone()
        }
        TimeSource::Clock => ClockSpec { sec: scn.now.0, nsec: scn.now.1, tick_ns: 0 },
    };
    for i in &v.flag_targets {
        opts.push(("--removal-marker-target-name".into(), Some(scn.targets[*i].clone())));
    }
    if let Some(c) = &v.config {
        fs.insert(c.path.clone(), config_bytes(scn, c));
        opts.push(("--removal-marker-target-config".into(), Some(c.path.clone())));
        // a file of the same relative name next to the source (it names every marker of the
        // document): a config path is relative to the working directory, never to the source
        if let Some(ip) = &in_path {
            if let Some((dir, _)) = ip.rsplit_once('/') {
                let decoy = format!("{}/{}", dir, c.path);
                if decoy != c.path && v.explicit_defaults & 0x40 != 0 {
                    let mut all = String::new();
                    for e in scn.doc.elems() {
                        if let Some(AttrVal::Val(n)) = &e.name {
                            all.push_str(n);
                            all.push('\n');
                        }
                    }
                    fs.insert(decoy, all.into_bytes());
                }
            }
        }
    }
    match scn.mode {
        Mode::Clean => {}
        Mode::List => opts.push(((if v.short_mode_flag { "-l" } else { "--list" }).into(), None)),
        Mode::ListAll => opts.push(("--list-all".into(), None)),
    }
    if scn.json {
        opts.push(("--list-json".into(), None));
    }
    shuffle(&mut opts, v.order);
    let mut argv = vec!["chiritori".to_string()];
    for (k, (name, val)) in opts.into_iter().enumerate() {
        match val {
            None => argv.push(name),
            Some(val) => {
                // values that start with '-' must use the = form (clap would read them as flags)
                let eq = (v.eq_form >> (k % 32)) & 1 == 1 || val.starts_with('-');
                if eq {
                    if name.starts_with("--") {
                        argv.push(format!("{}={}", name, val));
                    } else {
                        argv.push(format!("{}{}", name, val)); // -fpath
                    }
                } else {
                    argv.push(name);
                    argv.push(val);
                }
            }
        }
    }
    if v.combine_short {
        // `-l -f path` may be written `-lf path`, `-l -fpath` as `-lfpath`
        if let Some(i) = argv.iter().position(|a| a == "-l") {
            if let Some(j) = argv.iter().position(|a| (a.starts_with("-f") || a.starts_with("-o")) && !a.starts_with("--")) {
                let merged = format!("-l{}", &argv[j][1..]);
                argv[j] = merged;
                argv.remove(i);
            }
        }
    }
    // a pre-existing output file may well be newer than the source (an earlier run wrote it)
    let mut mtimes: BTreeMap<String, (i64, i64)> = BTreeMap::new();
    if let (Some(ip), Some(op)) = (&in_path, &out_path) {
        if ip != op && fs.contains_key(op) {
            mtimes.insert(ip.clone(), (scn.now.0 - 86_400 * 3, 0));
            if v.explicit_defaults & 0x20 != 0 {
                mtimes.insert(op.clone(), (scn.now.0 - 86_400, 0));
            } else {
                mtimes.insert(op.clone(), (scn.now.0 - 86_400 * 10, 0));
            }
            if let Some(c) = &v.config {
                mtimes.insert(c.path.clone(), (scn.now.0 - 86_400 * 5, 0));
            }
        }
    }
    let sizeless = match (&v.input, &v.output, v.input_sizeless) {
        (Input::File { path, .. }, Output::Stdout, true) | (Input::File { path, .. }, Output::File { .. }, true) => vec![path.clone()],
        _ => vec![],
    };
    (fs, Exec { argv, stdin, env: v.env.clone(), clock, io: v.io.clone(), stdout_tty: v.stdout_tty, sizeless, mtimes }, out_path)
}

pub fn run(scn: &C20Scn, stats: &mut RunStats) -> Option<Violation> {
    let text = scn.doc.render();
    let offset = scn.offset.clone().unwrap_or_else(|| "+00:00".to_string());
    let mut any_removed = false;
    for (k, v) in scn.variants.iter().enumerate() {
        let targets = target_set(scn, v);
        let reference = match lib_call(&text, &scn.doc, &offset, scn.now, &targets, scn.mode, scn.json) {
            Ok(r) => r,
            Err(_) => {
                stats.unevaluable = true;
                stats.bump("unevaluable_reference_panicked");
                return None;
            }
        };
        if scn.mode == Mode::Clean && reference != text {
            any_removed = true;
        }
        if scn.mode != Mode::Clean && !reference.is_empty() {
            any_removed = true;
        }
        let (mut fs, ex, out_path) = build_exec(scn, v, &text);
        let before = fs.clone();
        let out = execute(&mut fs, &ex, crate::cli::run);
        let delivered: Vec<u8> = match &out_path {
            Some(p) => fs.get(p).cloned().unwrap_or_default(),
            None => out.stdout.clone(),
        };
        stats.note(format!("variant {} argv={:?} env={:?} clock={:?}", k, ex.argv, ex.env, ex.clock));
        stats.absorb(&format!("v{}:{:?}", k, scn.mode), &out, &delivered);
        if any_soft_fault(&out) {
            stats.bump("execs_with_soft_fault");
        }
        // reach probes
        if let Output::File { preexisting: Some(pre), .. } = &v.output {
            if pre.len() > reference.len() {
                stats.bump("probe_output_shorter_than_preexisting_file");
            }
        }
        if matches!(v.output, Output::SameAsInput { .. }) {
            stats.bump("probe_output_aliases_input");
            if reference.len() < text.len() {
                stats.bump("probe_inplace_result_shorter_than_source");
            }
        }
        if v.config.as_ref().map_or(false, |c| c.crlf && !c.lines.is_empty()) {
            stats.bump("probe_crlf_config");
        }
        if v.config.is_some() && !v.flag_targets.is_empty() {
            stats.bump("probe_targets_from_file_and_flags");
        }
        if targets.is_empty() {
            stats.bump("probe_no_target_option_or_empty_set");
        }
        if matches!(v.time, TimeSource::Explicit { .. }) && v.env.contains_key("TZ") {
            stats.bump("probe_explicit_time_under_tz");
        }
        let fail = |inv: &str, sig: String, detail: String| {
            Some(Violation { invariant: inv.to_string(), signature: sig, detail, step: k })
        };
        // --- oracle -------------------------------------------------------
        match &out.status {
            Status::Exit(0) => {}
            other => {
                return fail(
                    "C20.exit_status",
                    format!("status:{}", status_class(other)),
                    format!("variant {} ended with {:?}; stderr={:?}", k, other, String::from_utf8_lossy(&out.stderr)),
                );
            }
        }
        if delivered != reference.as_bytes() {
            let sig = diff_signature(scn, v, &delivered, reference.as_bytes());
            return fail(
                "C20.delivered_bytes_equal_library",
                sig,
                format!(
                    "variant {}: delivered {:?}\n  library  {:?}",
                    k,
                    String::from_utf8_lossy(&delivered),
                    reference
                ),
            );
        }
        if !out.stderr.is_empty() {
            return fail("C20.stderr_empty", "stderr".into(), format!("stderr={:?}", String::from_utf8_lossy(&out.stderr)));
        }
        if out_path.is_some() && !out.stdout.is_empty() {
            return fail(
                "C20.stdout_empty_when_output_file",
                "stdout-with-output-file".into(),
                format!("stdout={:?}", String::from_utf8_lossy(&out.stdout)),
            );
        }
        // conservation on the file system
        for (p, c) in &before {
            if Some(p) == out_path.as_ref() || crate::world::is_meta_key(p) {
                continue;
            }
            match fs.get(p) {
                Some(c2) if c2 == c => {}
                Some(_) => return fail("C20.fs_conservation", format!("modified:{}", role(scn, v, p)), format!("file {:?} was modified", p)),
                None => return fail("C20.fs_conservation", format!("deleted:{}", role(scn, v, p)), format!("file {:?} disappeared", p)),
            }
        }
        for p in fs.keys() {
            if !before.contains_key(p) && Some(p) != out_path.as_ref() && !crate::world::is_meta_key(p) {
                return fail("C20.fs_conservation", "created-extra-file".into(), format!("unexpected file {:?} appeared", p));
            }
        }
    }
    run_probes(scn, &text, &offset, stats);
    stats.nontrivial = any_removed && stats.counters.get("execs_with_soft_fault").copied().unwrap_or(0) > 0;
    None
}

/// Non-gating: what happens under hard faults is counted, under the narrow relaxed oracle
/// "exit status 0 => the delivered bytes equal the reference", and never reported.
fn run_probes(scn: &C20Scn, text: &str, offset: &str, stats: &mut RunStats) {
    for p in &scn.probes {
        let v = match scn.variants.get(p.base) {
            Some(v) => v,
            None => continue,
        };
        let targets = target_set(scn, v);
        let reference = match lib_call(text, &scn.doc, offset, scn.now, &targets, scn.mode, scn.json) {
            Ok(r) => r,
            Err(_) => continue,
        };
        let (mut fs, mut ex, out_path) = build_exec(scn, v, text);
        ex.io = IoPlan::default();
        let in_path = match &v.input {
            Input::File { path, .. } => Some(path.clone()),
            Input::Stdin => None,
        };
        let name = match &p.kind {
            ProbeKind::EioRead(n) => {
                ex.io.hard = Some(HardFault::EioRead(*n));
                "eio_read"
            }
            ProbeKind::InputMissing => match &in_path {
                Some(ip) => {
                    fs.remove(ip);
                    "enoent_input"
                }
                None => continue,
            },
            ProbeKind::ConfigMissing => match &v.config {
                Some(c) => {
                    fs.remove(&c.path);
                    "enoent_config"
                }
                None => continue,
            },
            ProbeKind::EaccesOutput => match &out_path {
                Some(op) => {
                    ex.io.hard = Some(HardFault::Eacces(op.clone()));
                    "eacces_output"
                }
                None => continue,
            },
            ProbeKind::EnospcWrite(n) => {
                if out_path.is_none() {
                    continue;
                }
                ex.io.hard = Some(HardFault::EnospcWrite(*n));
                "enospc_write"
            }
            ProbeKind::EpipeStdout(n) => {
                if out_path.is_some() {
                    continue;
                }
                ex.io.hard = Some(HardFault::EpipeStdout(*n));
                "epipe_stdout"
            }
            ProbeKind::InvalidUtf8Input => {
                let mut bytes = text.as_bytes().to_vec();
                let at = bytes.len() / 2;
                bytes.insert(at, 0xFF);
                match &in_path {
                    Some(ip) => {
                        fs.insert(ip.clone(), bytes);
                    }
                    None => ex.stdin = StdinSpec::PipeBytes(bytes),
                }
                "invalid_utf8_input"
            }
            ProbeKind::InvalidUtf8ConfigLine => match &v.config {
                Some(c) if c.lines.len() >= 2 => {
                    let mut bytes = fs.get(&c.path).cloned().unwrap_or_default();
                    bytes.insert(0, 0xFF); // first line unreadable: every later name is silently dropped
                    fs.insert(c.path.clone(), bytes);
                    "invalid_utf8_config_line"
                }
                _ => continue,
            },
            ProbeKind::StdinIsTty => {
                if in_path.is_some() {
                    continue;
                }
                ex.stdin = StdinSpec::Tty;
                "stdin_is_tty"
            }
            ProbeKind::CrashAfterTruncate => {
                if out_path.is_none() {
                    continue;
                }
                ex.io.crash = Some(CrashAt::AfterOpenWrite);
                "crash_mid_commit"
            }
            ProbeKind::CrashMidWrite(n) => {
                if out_path.is_none() {
                    continue;
                }
                ex.io.crash = Some(CrashAt::AfterFileBytes(*n));
                "crash_mid_commit"
            }
        };
        let out = execute(&mut fs, &ex, crate::cli::run);
        let delivered: Vec<u8> = match &out_path {
            Some(p) => fs.get(p).cloned().unwrap_or_default(),
            None => out.stdout.clone(),
        };
        stats.absorb(&format!("probe:{}", name), &out, &delivered);
        stats.bump(&format!("hardprobe_{}", name));
        match &out.status {
            Status::Exit(0) => {
                if delivered == reference.as_bytes() {
                    stats.bump("hardprobe_result_exit0_and_output_equals_reference");
                } else {
                    stats.bump(&format!("hardprobe_result_exit0_but_output_differs:{}", name));
                }
            }
            Status::Crash(_) => {
                if matches!(v.output, Output::SameAsInput { .. }) && delivered != text.as_bytes() && delivered != reference.as_bytes() {
                    stats.bump("hardprobe_result_inplace_crash_lost_the_source");
                } else {
                    stats.bump("hardprobe_result_crash_left_partial_or_old_output");
                }
            }
            _ => stats.bump(&format!("hardprobe_result_nonzero_exit:{}", name)),
        }
    }
}

fn status_class(s: &Status) -> String {
    match s {
        Status::Exit(c) => format!("exit{}", c),
        Status::Panic(m) => format!("panic:{}", m.split(" at ").next().unwrap_or("").chars().take(40).collect::<String>()),
        Status::Crash(w) => format!("crash:{}", w),
    }
}

fn role(_scn: &C20Scn, v: &Variant, p: &str) -> &'static str {
    if let Input::File { path, .. } = &v.input {
        if path == p {
            return "input";
        }
    }
    if v.config.as_ref().map_or(false, |c| c.path == p) {
        return "config";
    }
    "bystander"
}

/// Stable description of *how* the delivered bytes differ; used to tell known
/// findings apart from new violations.
fn diff_signature(scn: &C20Scn, _v: &Variant, got: &[u8], want: &[u8]) -> String {
    let got_s = String::from_utf8_lossy(got);
    let want_s = String::from_utf8_lossy(want);
    if scn.mode == Mode::Clean {
        let got_ids: BTreeSet<u32> = scn.doc.surviving_ids(&got_s).into_iter().collect();
        let want_ids: BTreeSet<u32> = scn.doc.surviving_ids(&want_s).into_iter().collect();
        let extra_removed: Vec<u32> = want_ids.difference(&got_ids).copied().collect();
        let extra_kept: Vec<u32> = got_ids.difference(&want_ids).copied().collect();
        let describe = |ids: &[u32]| -> String {
            let mut v: Vec<String> = ids
                .iter()
                .filter_map(|id| scn.doc.elems().into_iter().find(|e| e.id == *id))
                .map(|e| match (&e.kind, &e.name, &e.to) {
                    (doc::Kind::Rm, Some(AttrVal::Val(n)), _) => format!("marker[{}]", n),
                    (doc::Kind::Tl, _, _) => "time-limited".to_string(),
                    _ => "other".to_string(),
                })
                .collect();
            v.sort();
            v.dedup();
            v.join("+")
        };
        if !extra_removed.is_empty() {
            return format!("cli-removed-more:{}", describe(&extra_removed));
        }
        if !extra_kept.is_empty() {
            return format!("cli-removed-less:{}", describe(&extra_kept));
        }
    }
    if scn.mode != Mode::Clean {
        // list modes: which elements are shown inside a Ready item?
        let g = ready_ids(scn, &got_s);
        let w = ready_ids(scn, &want_s);
        let describe = |ids: Vec<u32>| -> String {
            let mut v: Vec<String> = ids
                .iter()
                .filter_map(|id| scn.doc.elems().into_iter().find(|e| e.id == *id))
                .map(|e| match (&e.kind, &e.name) {
                    (doc::Kind::Rm, Some(AttrVal::Val(n))) => format!("marker[{}]", n),
                    (doc::Kind::Tl, _) => "time-limited".to_string(),
                    _ => "other".to_string(),
                })
                .collect();
            v.sort();
            v.dedup();
            v.join("+")
        };
        let more: Vec<u32> = g.difference(&w).copied().collect();
        let less: Vec<u32> = w.difference(&g).copied().collect();
        if !more.is_empty() {
            return format!("cli-lists-ready-more:{}", describe(more));
        }
        if !less.is_empty() {
            return format!("cli-lists-ready-less:{}", describe(less));
        }
        // same tags shown: compare the number of Ready items
        let count = |t: &str| -> usize {
            if scn.json {
                t.matches("\"current_status\":\"Ready\"").count()
            } else {
                t.split('\n').filter(|l| l.starts_with("--------") && l.contains("Ready")).count()
            }
        };
        let (cg, cw) = (count(&got_s), count(&want_s));
        if cg > cw {
            return "cli-lists-ready-more:items".into();
        }
        if cg < cw {
            return "cli-lists-ready-less:items".into();
        }
    }
    if got.len() < want.len() && want.starts_with(got) {
        return "truncated".into();
    }
    if got.len() > want.len() && got.starts_with(want) {
        return "trailing-bytes".into();
    }
    "different-bytes".into()
}

/// Ids of the elements whose opening tag is shown inside a *Ready* item of a list output
/// (pretty or JSON).  Best effort, used only to name the kind of a difference.
fn ready_ids(scn: &C20Scn, text: &str) -> BTreeSet<u32> {
    let mut chunks: Vec<String> = Vec::new();
    if scn.json {
        if let Ok(serde_json::Value::Array(items)) = serde_json::from_str::<serde_json::Value>(text) {
            for it in items {
                if it.get("current_status").and_then(|s| s.as_str()) == Some("Ready") {
                    chunks.push(it.get("annotated_code_block").and_then(|s| s.as_str()).unwrap_or("").to_string());
                }
            }
        }
    } else {
        // items start with a header line "-------- [ n ]  Ready  --------" / "... Pending ..."
        let mut cur: Option<String> = None;
        for line in text.split('\n') {
            if line.starts_with("--------") {
                if let Some(c) = cur.take() {
                    chunks.push(c);
                }
                if line.contains("Ready") {
                    cur = Some(String::new());
                }
            } else if let Some(c) = cur.as_mut() {
                c.push_str(line);
                c.push('\n');
            }
        }
        if let Some(c) = cur.take() {
            chunks.push(c);
        }
    }
    let mut ids = BTreeSet::new();
    for c in chunks {
        // strip ANSI colour sequences so that the attribute text is contiguous
        let mut plain = String::new();
        let mut it = c.chars().peekable();
        while let Some(ch) = it.next() {
            if ch == '\u{1b}' {
                for x in it.by_ref() {
                    if x == 'm' {
                        break;
                    }
                }
            } else {
                plain.push(ch);
            }
        }
        ids.extend(scn.doc.surviving_ids(&plain));
    }
    ids
}

// ---------------------------------------------------------------------------
// Shrinking
// ---------------------------------------------------------------------------

pub fn shrink_candidates(s: &C20Scn) -> Vec<C20Scn> {
    let mut out = Vec::new();
    if !s.probes.is_empty() {
        let mut c = s.clone();
        c.probes.clear();
        out.push(c);
    }
    // fewer variants
    if s.variants.len() > 1 {
        for i in 0..s.variants.len() {
            let mut c = s.clone();
            c.variants = vec![s.variants[i].clone()];
            c.probes.clear();
            out.push(c);
        }
        for i in 0..s.variants.len() {
            let mut c = s.clone();
            c.variants.remove(i);
            c.probes.clear();
            out.push(c);
        }
    }
    for d in s.doc.shrink_candidates() {
        let mut c = s.clone();
        c.doc = d;
        out.push(c);
    }
    // drop a target (re-index)
    for t in 0..s.targets.len() {
        let mut c = s.clone();
        c.targets.remove(t);
        for v in &mut c.variants {
            let fix = |xs: &mut Vec<usize>| {
                xs.retain(|i| *i != t);
                for i in xs.iter_mut() {
                    if *i > t {
                        *i -= 1;
                    }
                }
            };
            fix(&mut v.flag_targets);
            if let Some(cf) = &mut v.config {
                fix(&mut cf.lines);
            }
        }
        out.push(c);
    }
    if s.offset.is_some() && s.offset.as_deref() == Some("+00:00") {
        let mut c = s.clone();
        c.offset = None;
        out.push(c);
    }
    if s.mode != Mode::Clean {
        let mut c = s.clone();
        c.mode = Mode::Clean;
        c.json = false;
        out.push(c);
    }
    if s.json {
        let mut c = s.clone();
        c.json = false;
        out.push(c);
    }
    if s.now.1 != 0 {
        let mut c = s.clone();
        c.now.1 = 0;
        out.push(c);
    }
    for (i, v) in s.variants.iter().enumerate() {
        let mut push = |nv: Variant| {
            if nv != *v {
                let mut c = s.clone();
                c.variants[i] = nv;
                out.push(c);
            }
        };
        let mut nv = v.clone();
        nv.io = IoPlan::default();
        push(nv);
        let mut nv = v.clone();
        nv.env.clear();
        push(nv);
        for k in v.env.keys() {
            let mut nv = v.clone();
            nv.env.remove(k);
            push(nv);
        }
        let mut nv = v.clone();
        nv.bystanders.clear();
        push(nv);
        let mut nv = v.clone();
        nv.stdout_tty = false;
        push(nv);
        let mut nv = v.clone();
        nv.input_sizeless = false;
        push(nv);
        let mut nv = v.clone();
        nv.combine_short = false;
        push(nv);
        let mut nv = v.clone();
        nv.alias_spelling = false;
        push(nv);
        let mut nv = v.clone();
        nv.explicit_defaults = 0;
        push(nv);
        let mut nv = v.clone();
        nv.eq_form = u32::MAX;
        nv.order = 0;
        nv.short_mode_flag = false;
        push(nv);
        let mut nv = v.clone();
        nv.time = TimeSource::Clock;
        push(nv);
        if let TimeSource::Explicit { decoy, .. } = &v.time {
            let mut nv = v.clone();
            nv.time = TimeSource::Explicit { zone_off: 0, zulu: true, decoy: decoy.clone(), spelling: 0 };
            push(nv);
        }
        let mut nv = v.clone();
        nv.output = Output::Stdout;
        push(nv);
        if let Output::File { path, preexisting: Some(_), .. } = &v.output {
            let mut nv = v.clone();
            nv.output = Output::File { path: path.clone(), short_flag: false, preexisting: None };
            push(nv);
        }
        let mut nv = v.clone();
        if !matches!(nv.output, Output::SameAsInput { .. }) {
            nv.input = Input::Stdin;
            push(nv);
        }
        let mut nv = v.clone();
        if let Input::File { .. } = nv.input {
            nv.input = Input::File { path: "src.txt".into(), short_flag: false };
            push(nv);
        }
        // move everything from the config file to flags
        if let Some(cf) = &v.config {
            let mut nv = v.clone();
            nv.flag_targets.extend(cf.lines.iter().copied());
            nv.config = None;
            push(nv);
            let mut nv = v.clone();
            if let Some(c) = &mut nv.config {
                c.crlf = false;
                c.final_newline = true;
            }
            push(nv);
            for j in 0..cf.lines.len() {
                let mut nv = v.clone();
                nv.config.as_mut().unwrap().lines.remove(j);
                push(nv);
            }
        }
        for j in 0..v.flag_targets.len() {
            let mut nv = v.clone();
            nv.flag_targets.remove(j);
            push(nv);
        }
    }
    out
}

// keep the hard-fault types referenced (used by the probe tier)
#[allow(dead_code)]
fn _types(_: HardFault, _: CrashAt) {}

pub fn sample(s: &C20Scn) -> serde_json::Value {
    let text = s.doc.render();
    let variants: Vec<serde_json::Value> = s
        .variants
        .iter()
        .map(|v| {
            let (fs, ex, out) = build_exec(s, v, &text);
            serde_json::json!({
                "argv": ex.argv,
                "stdin": match ex.stdin { StdinSpec::Tty => "tty".to_string(), _ => "pipe(source)".to_string() },
                "env": ex.env,
                "clock": [ex.clock.sec, ex.clock.nsec],
                "files_before": fs.keys().collect::<Vec<_>>(),
                "output_path": out,
                "io_plan": v.io,
            })
        })
        .collect();
    serde_json::json!({ "source": text, "mode": format!("{:?}", s.mode), "json": s.json, "now": [s.now.0, s.now.1], "targets": s.targets, "variants": variants })
}
