//! The real `chiritori-cli/src/main.rs`, compiled verbatim from the
//! repository's working tree, with the simulator's facades shadowing `std`,
//! `atty`, `clap` and the printing macros inside this module only.

#![allow(unused_macros, dead_code, unused_imports)]

use crate::world::simatty as atty;
use crate::world::simclap as clap;
use crate::world::simstd as std;

macro_rules! print {
    ($($arg:tt)*) => { std::io::_print(::core::format_args!($($arg)*)) };
}
macro_rules! println {
    () => { std::io::_print(::core::format_args!("\n")) };
    ($($arg:tt)*) => {{ std::io::_print(::core::format_args!($($arg)*)); std::io::_print(::core::format_args!("\n")); }};
}
macro_rules! eprint {
    ($($arg:tt)*) => { std::io::_eprint(::core::format_args!($($arg)*)) };
}
macro_rules! eprintln {
    () => { std::io::_eprint(::core::format_args!("\n")) };
    ($($arg:tt)*) => {{ std::io::_eprint(::core::format_args!($($arg)*)); std::io::_eprint(::core::format_args!("\n")); }};
}

include!(concat!(env!("VERIF_REPO"), "/chiritori-cli/src/main.rs"));

pub fn run() {
    // `main` may return (), a Result or an ExitCode
    std::process::finish_main(main())
}
