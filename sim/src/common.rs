//! Pieces shared by the three property checks: the direct library reference,
//! pools for environment values, hashing, statistics.

use crate::doc::Doc;
use crate::rng::Rng;
use crate::world::{IoPlan, Outcome};
use chrono::TimeZone;
use serde::{Deserialize, Serialize};
use std::collections::{BTreeMap, BTreeSet, HashSet};
use std::rc::Rc;

#[derive(Clone, Copy, Debug, Serialize, Deserialize, PartialEq)]
pub enum Mode {
    Clean,
    List,
    ListAll,
}

/// Calls the real library directly (no CLI, no simulated I/O).  `Err` = the
/// library panicked on this input (a matter for the pure properties).
pub fn lib_call(
    text: &str,
    doc: &Doc,
    offset: &str,
    now: (i64, i64),
    targets: &BTreeSet<String>,
    mode: Mode,
    json: bool,
) -> Result<String, String> {
    use chiritori::chiritori::*;
    let text = text.to_string();
    let (ds, de, tl, rm) = (doc.ds.clone(), doc.de.clone(), doc.tl_tag.clone(), doc.rm_tag.clone());
    let offset = offset.to_string();
    let targets: HashSet<String> = targets.iter().cloned().collect();
    // The reference runs on a fresh thread under a fixed environment (TZ, LANG, LC_* unset), so that
    // it is a pure function of its arguments even if a change under test makes the library read the
    // process time zone (chrono caches the zone per thread).
    crate::world::install_env(&BTreeMap::new());
    let h = std::thread::Builder::new()
        .name("sim-reference".into())
        .stack_size(16 << 20)
        .spawn(move || {
            crate::world::QUIET_PANICS.with(|q| q.set(true));
            std::panic::catch_unwind(move || {
                let current = chrono::Local.timestamp_opt(now.0, now.1 as u32).single().expect("instant representable");
                let config = ChiritoriConfiguration {
                    time_limited_configuration: TimeLimitedConfiguration { tag_name: tl, time_offset: offset, current },
                    removal_marker_configuration: RemovalMarkerConfiguration { tag_name: rm, targets },
                };
                let content = Rc::new(text);
                let fmt = if json { ListFormat::JSON } else { ListFormat::PrettyString };
                match mode {
                    Mode::Clean => clean(content, (ds, de), config),
                    Mode::List => list(content, (ds, de), config, fmt).unwrap(),
                    Mode::ListAll => list_all(content, (ds, de), config, fmt).unwrap(),
                }
            })
        })
        .expect("spawn reference thread");
    let r = h.join().expect("reference thread join");
    r.map_err(|_| "library panicked".to_string())
}

pub fn strip_ws(s: &str) -> String {
    s.chars().filter(|c| !matches!(c, ' ' | '\t' | '\n' | '\r')).collect()
}

pub const TZS: &[Option<&str>] = &[
    None,
    Some("UTC"),
    Some("Asia/Tokyo"),
    Some("America/Los_Angeles"),
    Some("Europe/London"),
    Some("Australia/Lord_Howe"),
    Some("Asia/Kathmandu"),
    Some("JST-9"),
    Some("EST5EDT,M3.2.0,M11.1.0"),
    Some(":Pacific/Kiritimati"),
    Some("garbage/zone"),
    Some(""),
];

pub const LOCALES: &[Option<&str>] = &[None, Some("C"), Some("ja_JP.UTF-8"), Some("en_US.UTF-8"), Some("tr_TR.UTF-8"), Some("POSIX")];

pub fn gen_env(rng: &mut Rng) -> BTreeMap<String, String> {
    let mut env = BTreeMap::new();
    if let Some(tz) = rng.pick(TZS) {
        env.insert("TZ".to_string(), tz.to_string());
    }
    if let Some(l) = rng.pick(LOCALES) {
        env.insert("LANG".to_string(), l.to_string());
    }
    if rng.chance(1, 4) {
        if let Some(l) = rng.pick(LOCALES) {
            env.insert("LC_ALL".to_string(), l.to_string());
        }
    }
    // variables that tools like to honour "for reproducibility" or configuration; none may matter
    if rng.chance(1, 8) {
        let (k, v) = *rng.pick(&[
            ("SOURCE_DATE_EPOCH", "0"),
            ("SOURCE_DATE_EPOCH", "946684800"),
            ("SOURCE_DATE_EPOCH", "4102444800"),
            ("CHIRITORI_CURRENT", "2000-01-01T00:00:00Z"),
            ("CHIRITORI_TARGETS", "feature1,feature2"),
            ("FAKETIME", "2001-01-01 00:00:00"),
        ]);
        env.insert(k.to_string(), v.to_string());
    }
    env
}

/// Swarm-style I/O plan: about a third fault-free, otherwise a random subset of
/// the legal soft faults with a random chunk bound.
pub fn gen_io(rng: &mut Rng) -> IoPlan {
    if rng.chance(1, 3) {
        return IoPlan::default();
    }
    let mut p = IoPlan { seed: rng.nonzero(), ..Default::default() };
    p.short_read = rng.chance(1, 2);
    p.eintr_read = rng.chance(1, 3);
    p.short_write = rng.chance(1, 2);
    p.eintr_write = rng.chance(1, 3);
    p.max_chunk = *rng.pick(&[1usize, 2, 3, 7, 64, 4096]);
    if !(p.short_read || p.eintr_read || p.short_write || p.eintr_write) {
        p.short_read = true;
        p.short_write = true;
    }
    p
}

pub fn fnv(h: &mut u64, bytes: &[u8]) {
    for b in bytes {
        *h ^= *b as u64;
        *h = h.wrapping_mul(0x100000001b3);
    }
}

pub fn hash_str(s: &str) -> u64 {
    let mut h = 0xcbf29ce484222325;
    fnv(&mut h, s.as_bytes());
    h
}

#[derive(Clone, Debug, Serialize, Deserialize)]
pub struct Violation {
    pub invariant: String,
    /// stable shape used to match known findings
    pub signature: String,
    pub detail: String,
    pub step: usize,
}

#[derive(Clone, Debug, Default, Serialize, Deserialize)]
pub struct RunStats {
    pub execs: u64,
    pub counters: BTreeMap<String, u64>,
    /// hash of the history (event kinds, faults fired, statuses, resulting files)
    pub fingerprint: u64,
    /// hash of every event log line of every execution (determinism self-test)
    pub log_hash: u64,
    pub nontrivial: bool,
    pub unevaluable: bool,
    pub sim_seconds: i64,
    pub transcript: Vec<String>,
    pub keep_transcript: bool,
}

impl RunStats {
    pub fn new(keep_transcript: bool) -> Self {
        RunStats { fingerprint: 0xcbf29ce484222325, log_hash: 0xcbf29ce484222325, keep_transcript, ..Default::default() }
    }
    pub fn bump(&mut self, k: &str) {
        *self.counters.entry(k.to_string()).or_insert(0) += 1;
    }
    pub fn add(&mut self, k: &str, n: u64) {
        if n > 0 {
            *self.counters.entry(k.to_string()).or_insert(0) += n;
        }
    }
    /// Folds one execution into the statistics.
    pub fn absorb(&mut self, label: &str, out: &Outcome, delivered: &[u8]) {
        self.execs += 1;
        fnv(&mut self.log_hash, &out.log_hash.to_le_bytes());
        fnv(&mut self.log_hash, &out.stdout);
        fnv(&mut self.log_hash, delivered);
        let mut faults = String::new();
        for (k, v) in &out.counters {
            self.add(k, *v);
            if *v > 0 {
                faults.push_str(k);
                faults.push(',');
            }
        }
        let fp = format!("{}|{}|{}|{:x}", label, faults, out.exit_code(), {
            let mut h = 0xcbf29ce484222325;
            fnv(&mut h, delivered);
            h
        });
        fnv(&mut self.fingerprint, fp.as_bytes());
        if self.keep_transcript {
            self.transcript.push(format!("== {} argv={:?}", label, ()));
            for l in &out.log {
                self.transcript.push(format!("   {}", l));
            }
        }
    }
    pub fn note(&mut self, s: String) {
        if self.keep_transcript {
            self.transcript.push(s);
        }
    }
}

pub fn any_soft_fault(out: &Outcome) -> bool {
    out.counters.iter().any(|(k, v)| *v > 0 && (k.starts_with("short_") || k.starts_with("eintr_")))
}

// ---------------------------------------------------------------------------
// Library session: a long-running embedding (library user, wasm playground)
// calling the library repeatedly on ONE thread of one process, so thread-locals
// and statics of the code under test persist from call to call.
// ---------------------------------------------------------------------------

#[derive(Clone, Debug)]
pub enum SessionInput {
    Text(String),
    /// the output of an earlier call of the same session
    OutputOf(usize),
}

#[derive(Clone, Debug)]
pub struct SessionCall {
    pub input: SessionInput,
    pub offset: String,
    pub now: (i64, i64),
    pub targets: BTreeSet<String>,
}

pub fn library_session(doc: &Doc, env: &BTreeMap<String, String>, calls: Vec<SessionCall>) -> Vec<Result<String, String>> {
    use chiritori::chiritori::*;
    crate::world::install_env(env);
    let (ds, de, tl, rm) = (doc.ds.clone(), doc.de.clone(), doc.tl_tag.clone(), doc.rm_tag.clone());
    let h = std::thread::Builder::new()
        .name("sim-session".into())
        .stack_size(16 << 20)
        .spawn(move || {
            crate::world::QUIET_PANICS.with(|q| q.set(true));
            let mut outs: Vec<Result<String, String>> = Vec::new();
            for c in calls {
                let text = match &c.input {
                    SessionInput::Text(t) => Ok(t.clone()),
                    SessionInput::OutputOf(i) => outs.get(*i).cloned().unwrap_or_else(|| Err("no such output".into())),
                };
                let r = match text {
                    Err(e) => Err(e),
                    Ok(text) => {
                        let (ds, de, tl, rm) = (ds.clone(), de.clone(), tl.clone(), rm.clone());
                        std::panic::catch_unwind(move || {
                            let current = chrono::Local.timestamp_opt(c.now.0, c.now.1 as u32).single().expect("instant representable");
                            let config = ChiritoriConfiguration {
                                time_limited_configuration: TimeLimitedConfiguration { tag_name: tl, time_offset: c.offset.clone(), current },
                                removal_marker_configuration: RemovalMarkerConfiguration { tag_name: rm, targets: c.targets.iter().cloned().collect::<HashSet<String>>() },
                            };
                            clean(Rc::new(text), (ds, de), config)
                        })
                        .map_err(|_| "library panicked".to_string())
                    }
                };
                outs.push(r);
            }
            outs
        })
        .expect("spawn session thread");
    h.join().expect("session thread join")
}


/// serde_json without its recursion limit (documents may nest 45 levels deep, each level a few
/// JSON levels); run on a thread with a large stack.
pub fn json_from_slice<T: serde::de::DeserializeOwned + Send + 'static>(bytes: &[u8]) -> Result<T, String> {
    let bytes = bytes.to_vec();
    std::thread::Builder::new()
        .stack_size(64 << 20)
        .spawn(move || {
            let mut de = serde_json::Deserializer::from_slice(&bytes);
            de.disable_recursion_limit();
            T::deserialize(&mut de).map_err(|e| e.to_string())
        })
        .map_err(|e| e.to_string())?
        .join()
        .map_err(|_| "decoder thread panicked".to_string())?
}
