//! Workload documents: a small AST of code lines and removal-tag elements,
//! rendered with a given delimiter pair.  Every element carries a unique
//! `c="e<N>"` attribute (the README's reserved comment attribute) so that each
//! surviving or missing tag is attributable.

use crate::rng::Rng;
use serde::{Deserialize, Serialize};

#[derive(Clone, Debug, Serialize, Deserialize, PartialEq)]
pub enum Kind {
    /// the configured time-limited tag name
    Tl,
    /// the configured removal-marker tag name
    Rm,
    /// a tag name that is not registered
    Other(String),
}

#[derive(Clone, Debug, Serialize, Deserialize, PartialEq)]
pub enum AttrVal {
    /// attribute present without a value
    Bare,
    Val(String),
    /// written without quotes (`to=2024-03-01`): the tag grammar records no value for it
    Unquoted(String),
    /// opened with one quote character and "closed" with the other (`to="2024-… 00:00:00'`): the
    /// value never ends, so the grammar records no value; rendered as the last attribute
    Mismatched(String),
}

#[derive(Clone, Debug, Serialize, Deserialize, PartialEq)]
pub struct Elem {
    pub id: u32,
    pub kind: Kind,
    #[serde(default)]
    pub to: Option<AttrVal>,
    #[serde(default)]
    pub name: Option<AttrVal>,
    /// unwrap-block only: when the last child is a block element, its closing tag is written on
    /// the same line as this element's closing wrapper (`/* </tag> */ }`)
    #[serde(default)]
    pub last_child_closes_on_wrapper: bool,
    /// the closing tag carries a remark after the name (`</tag end-of-campaign>`), which the
    /// parser ignores
    #[serde(default)]
    pub close_remark: bool,
    /// the opening tag starts with the start delimiter written twice (the tag grammar strips
    /// every repetition)
    #[serde(default)]
    pub double_ds: bool,
    /// a repeated `to` attribute written after the first one
    #[serde(default)]
    pub to_dup: Option<AttrVal>,
    #[serde(default)]
    pub skip: bool,
    /// unwrap-block: the two wrapper lines (complete lines, with indentation)
    #[serde(default)]
    pub unwrap: Option<(String, String)>,
    #[serde(default)]
    pub indent: String,
    /// spelling of the tags (see render_tag)
    #[serde(default)]
    pub style: u8,
    /// inline layout: (prefix, body, suffix) all on one line; children unused
    #[serde(default)]
    pub inline: Option<(String, String, String)>,
    #[serde(default)]
    pub children: Vec<Node>,
    /// an inline element sharing a line with this unwrap-block element's wrapper or tag:
    /// 0 = end of the opening wrapper line, 1 = start of the closing wrapper line,
    /// 2 = after the opening tag on its line, 3 = before the closing tag on its line
    #[serde(default)]
    pub wrapper_inline: Option<(u8, Box<Elem>)>,
    /// a second one, at another of the four positions
    #[serde(default)]
    pub wrapper_inline2: Option<(u8, Box<Elem>)>,
    /// inline layout only: another inline element on the same line right after this one's closing
    /// tag (true = a blank in between, false = the tags touch)
    #[serde(default)]
    pub inline_next: Option<(bool, Box<Elem>)>,
    /// inline layout only: another inline element directly after the body text, inside this one
    /// (with an empty body text the two opening tags touch)
    #[serde(default)]
    pub inline_child: Option<Box<Elem>>,
    /// carries the unwrap-block attribute but has no wrapper lines and at most one
    /// line between its tags: can never be unwrapped (its children are still cleaned)
    #[serde(default)]
    pub unwrap_degenerate: bool,
}

#[derive(Clone, Debug, Serialize, Deserialize, PartialEq)]
pub enum Node {
    Line(String),
    Elem(Elem),
}

#[derive(Clone, Debug, Serialize, Deserialize, PartialEq)]
pub struct Doc {
    pub ds: String,
    pub de: String,
    pub tl_tag: String,
    pub rm_tag: String,
    pub nodes: Vec<Node>,
    pub final_newline: bool,
    /// (number of filler code lines, true = before the nodes / false = after them): large inputs
    #[serde(default)]
    pub pad: Option<(u32, bool)>,
    /// lines end in CR LF instead of LF
    #[serde(default)]
    pub crlf: bool,
    /// pad the text with one final comment line so that it is exactly this many bytes long
    /// (a multiple of a buffer size), if it is shorter
    #[serde(default)]
    pub exact_size: Option<u32>,
    /// the text starts with a byte order mark (U+FEFF), as some editors write it
    #[serde(default)]
    pub bom: bool,
}

pub const DEFAULT_DS: &str = "<!-- <";
pub const DEFAULT_DE: &str = "> -->";
pub const DEFAULT_TL: &str = "time-limited";
pub const DEFAULT_RM: &str = "removal-marker";

pub const DELIMS: &[(&str, &str)] = &[
    ("<!-- <", "> -->"),
    ("/* <", "> */"),
    ("// --", "-- //"),
    ("# <", "> #"),
    ("{{!", "}}"),
    ("《", "》"),
    ("/*‹", "›*/"),
    // plain comment delimiters: ordinary comments in the text then are (stray, inert) tags
    ("<!--", "-->"),
    ("/*", "*/"),
];

pub const TL_TAGS: &[&str] = &["time-limited", "tl", "expires", "期限", "TimeLimited", "EXPIRES"];
pub const RM_TAGS: &[&str] = &["removal-marker", "marker", "flag", "rm", "Marker", "FLAG"];
pub const OTHER_TAGS: &[&str] = &["note", "todo", "time-limit", "removal", "keep", "tl2", "expires-soon", "marker2", "time-limited-x", "rm/"];

const CODE_LINES: &[&str] = &[
    "foo();",
    "let x = 1;",
    "<h1>Hello World</h1>",
    "<p>Campaign</p>",
    "console.log(\"こんにちは\");",
    "return a < b;",
    "x -= 1; // dec",
    "echo \"# not a tag\"",
    "日本語のテキスト",
    "🧹 sweep();",
    "value = {{ item }}",
    "/* plain comment */",
    "bar(1, 2);",
    "baz",
    // text that contains *parts* of common delimiters but never a whole one
    "<!-- plain html comment -->",
    "a --> b",
    "x <!-- y",
    "if (a > b) { /* < c */ }",
    "// -- not a tag",
    "{{ braces }} {{!",
];

const WRAPPERS: &[(&str, &str)] = &[
    ("if (x) {", "}"),
    ("if released then", "end"),
    ("{", "}"),
    ("<div class=\"new\">", "</div>"),
    ("when (機能) {", "}"),
];

const INDENTS: &[&str] = &["", "", "  ", "    ", "\t", "\t\t", "      "];

impl Elem {
    /// the inline element sharing this unwrap-block's line at position `pos` (0..=3), if any
    fn wi(&self, pos: u8) -> Option<&Elem> {
        for w in [&self.wrapper_inline, &self.wrapper_inline2] {
            if let Some((p, x)) = w {
                if *p == pos {
                    return Some(x);
                }
            }
        }
        None
    }

    fn tag_name<'a>(&'a self, doc: &'a Doc) -> &'a str {
        match &self.kind {
            Kind::Tl => &doc.tl_tag,
            Kind::Rm => &doc.rm_tag,
            Kind::Other(s) => s,
        }
    }

    fn attrs(&self) -> Vec<String> {
        let q = if self.style & 4 != 0 { '\'' } else { '"' };
        let mut v = Vec::new();
        let attr = |n: &str, a: &AttrVal| match a {
            AttrVal::Bare => n.to_string(),
            AttrVal::Unquoted(s) => format!("{}={}", n, s),
            AttrVal::Mismatched(s) => format!("{}={}{}{}", n, q, s, if q == '"' { '\'' } else { '"' }),
            AttrVal::Val(s) => format!("{}={}{}{}", n, q, s, q),
        };
        if let Some(a) = &self.to {
            if !matches!(a, AttrVal::Mismatched(_)) {
                v.push(attr("to", a));
            }
            // a second `to` after the first (the first one is the element's `to`)
            if let Some(d) = &self.to_dup {
                v.push(attr("to", d));
            }
        }
        if let Some(a) = &self.name {
            v.push(attr("name", a));
        }
        v.push(format!("c={}e{}{}", q, self.id, q));
        if self.style & 0x80 != 0 {
            // an attribute the tool does not know, with blanks and an equals sign in its value
            v.push(format!("owner={}期限: spring campaign, team a=b{}", q, q));
        }
        if self.unwrap.is_some() || self.unwrap_degenerate {
            v.push("unwrap-block".to_string());
        }
        if self.skip {
            v.push("skip".to_string());
        }
        // attribute order
        match (self.style >> 3) & 3 {
            1 => v.reverse(),
            2 => v.rotate_left(1),
            _ => {}
        }
        if let Some(a @ AttrVal::Mismatched(_)) = &self.to {
            v.push(attr("to", a)); // always last: nothing follows the unterminated value
        }
        v
    }

    fn open_tag(&self, doc: &Doc) -> String {
        let tight_ok = doc.ds.ends_with('<') && doc.de.starts_with('>');
        let sp = if self.style & 1 != 0 || !tight_ok { " " } else { "" };
        let attrs = self.attrs();
        let multiline = self.style & 0x40 != 0 && self.inline.is_none();
        if multiline {
            // a tag spread over several lines; continuation lines either README style (prefixed
            // " * ") or plainly indented (style bit 0x20)
            let lead = if self.style & 0x20 != 0 { "  " } else { " * " };
            let mut s = format!("{}{}{}", doc.ds, " ", self.tag_name(doc));
            for (i, a) in attrs.iter().enumerate() {
                if i == 0 {
                    s.push(' ');
                } else {
                    s.push('\n');
                    s.push_str(&self.indent);
                    s.push_str(lead);
                }
                s.push_str(a);
            }
            s.push('\n');
            s.push_str(&self.indent);
            s.push_str(lead);
            s.push_str(&doc.de);
            s
        } else {
            let ds2 = if self.double_ds { doc.ds.as_str() } else { "" };
            format!("{}{}{}{} {}{}{}", doc.ds, ds2, sp, self.tag_name(doc), attrs.join(" "), sp, doc.de)
        }
    }

    /// open tag + body + close tag of an inline element, without indentation, prefix or suffix
    fn inline_core(&self, doc: &Doc) -> String {
        let body = self.inline.as_ref().map(|x| x.1.as_str()).unwrap_or("");
        let nested = self.inline_child.as_ref().map(|c| c.inline_core(doc)).unwrap_or_default();
        format!("{}{}{}{}", self.open_tag(doc), body, nested, self.close_tag(doc))
    }

    fn close_tag(&self, doc: &Doc) -> String {
        let tight_ok = doc.ds.ends_with('<') && doc.de.starts_with('>');
        let sp = if self.style & 2 != 0 || !tight_ok { " " } else { "" };
        let remark = if self.close_remark { " end-of-block" } else { "" };
        let sp2 = if self.close_remark && sp.is_empty() { " " } else { sp };
        format!("{}{}/{}{}{}{}", doc.ds, sp, self.tag_name(doc), remark, sp2, doc.de)
    }
}

fn render_nodes(doc: &Doc, nodes: &[Node], out: &mut Vec<String>) {
    for n in nodes {
        match n {
            Node::Line(s) => out.push(s.clone()),
            Node::Elem(e) => {
                if let Some((pre, body, suf)) = &e.inline {
                    let _ = body;
                    let next = match &e.inline_next {
                        Some((gap, x)) => format!("{}{}", if *gap { " " } else { "" }, x.inline_core(doc)),
                        None => String::new(),
                    };
                    out.push(format!("{}{}{}{}{}", e.indent, pre, e.inline_core(doc), next, suf));
                } else {
                    // a multi-line open tag contributes several lines
                    let n_open = e.open_tag(doc).split('\n').count();
                    for (i, l) in e.open_tag(doc).split('\n').enumerate() {
                        let tail = match e.wi(2) {
                            Some(x) if i + 1 == n_open => format!(" {}", x.inline_core(doc)),
                            _ => String::new(),
                        };
                        if i == 0 {
                            out.push(format!("{}{}{}", e.indent, l, tail));
                        } else {
                            out.push(format!("{}{}", l, tail));
                        }
                    }
                    if let Some((w, _)) = &e.unwrap {
                        match e.wi(0) {
                            Some(x) => out.push(format!("{} {}", w, x.inline_core(doc))),
                            _ => out.push(w.clone()),
                        }
                    }
                    render_nodes(doc, &e.children, out);
                    let merge_last = e.last_child_closes_on_wrapper
                        && e.wi(1).is_none()
                        && matches!(e.children.last(), Some(Node::Elem(c)) if c.inline.is_none() && c.wi(3).is_none());
                    if let (true, Some((_, w))) = (merge_last, &e.unwrap) {
                        // `<child's closing tag> <closing wrapper>` on one line
                        if let Some(last) = out.pop() {
                            out.push(format!("{} {}", last, w.trim_start()));
                        }
                    } else if let Some((_, w)) = &e.unwrap {
                        match e.wi(1) {
                            Some(x) => {
                                let t = w.trim_start();
                                let lead = &w[..w.len() - t.len()];
                                out.push(format!("{}{} {}", lead, x.inline_core(doc), t));
                            }
                            _ => out.push(w.clone()),
                        }
                    }
                    if let Some(x) = e.wi(3) {
                        out.push(format!("{}{} {}", e.indent, x.inline_core(doc), e.close_tag(doc)));
                        continue;
                    }
                    out.push(format!("{}{}", e.indent, e.close_tag(doc)));
                }
            }
        }
    }
}

impl Doc {
    pub fn render(&self) -> String {
        let mut lines = Vec::new();
        let filler = |lines: &mut Vec<String>, n: u32| {
            for i in 0..n {
                lines.push(format!("    filler_line_{:06}(); // 埋め草", i));
            }
        };
        if let Some((n, true)) = self.pad {
            filler(&mut lines, n);
        }
        render_nodes(self, &self.nodes, &mut lines);
        if let Some((n, false)) = self.pad {
            filler(&mut lines, n);
        }
        let nl = if self.crlf { "\r\n" } else { "\n" };
        // (a multi-line tag contains bare LFs of its own; under CRLF they are converted too)
        let mut s = lines.join("\n").replace('\n', nl);
        if self.final_newline && !lines.is_empty() {
            s.push_str(nl);
        }
        if self.bom {
            s.insert(0, '\u{feff}');
        }
        if let Some(n) = self.exact_size {
            let n = n as usize;
            let nl_len = nl.len();
            // room for "// " + filler + line break (and a line break before it if the text does not end in one)
            let need_nl_before = !s.is_empty() && !s.ends_with('\n');
            let overhead = 3 + nl_len + if need_nl_before { nl_len } else { 0 };
            if s.len() + overhead <= n {
                if need_nl_before {
                    s.push_str(nl);
                }
                let fill = n - s.len() - 3 - nl_len;
                s.push_str("// ");
                s.push_str(&"=".repeat(fill));
                s.push_str(nl);
            }
        }
        s
    }

    pub fn elems(&self) -> Vec<&Elem> {
        fn walk<'a>(nodes: &'a [Node], out: &mut Vec<&'a Elem>) {
            for n in nodes {
                if let Node::Elem(e) = n {
                    out.push(e);
                    let mut c = e.inline_child.as_deref();
                    while let Some(x) = c {
                        out.push(x);
                        c = x.inline_child.as_deref();
                    }
                    if let Some((_, x)) = &e.inline_next {
                        out.push(x);
                    }
                    if let Some((_, x)) = &e.wrapper_inline {
                        out.push(x);
                    }
                    if let Some((_, x)) = &e.wrapper_inline2 {
                        out.push(x);
                    }
                    walk(&e.children, out);
                }
            }
        }
        let mut v = Vec::new();
        walk(&self.nodes, &mut v);
        v
    }

    pub fn elems_mut(&mut self) -> Vec<&mut Elem> {
        fn walk<'a>(nodes: &'a mut [Node], out: &mut Vec<*mut Elem>) {
            for n in nodes {
                if let Node::Elem(e) = n {
                    out.push(e as *mut Elem);
                    if let Some((_, x)) = &mut e.inline_next {
                        out.push(&mut **x as *mut Elem);
                    }
                    let mut cur: *mut Elem = e as *mut Elem;
                    // Safety: walks a chain of distinct boxed elements
                    while let Some(x) = unsafe { &mut *cur }.inline_child.as_mut() {
                        let p = &mut **x as *mut Elem;
                        out.push(p);
                        cur = p;
                    }
                    if let Some((_, x)) = &mut e.wrapper_inline {
                        out.push(&mut **x as *mut Elem);
                    }
                    if let Some((_, x)) = &mut e.wrapper_inline2 {
                        out.push(&mut **x as *mut Elem);
                    }
                    walk(&mut e.children, out);
                }
            }
        }
        let mut v = Vec::new();
        walk(&mut self.nodes, &mut v);
        // Safety: used only to mutate scalar fields of distinct elements, never `children`.
        v.into_iter().map(|p| unsafe { &mut *p }).collect()
    }

    pub fn uses_default_delims(&self) -> bool {
        self.ds == DEFAULT_DS && self.de == DEFAULT_DE
    }

    /// Which element ids still have their opening tag in `text`.
    pub fn surviving_ids(&self, text: &str) -> Vec<u32> {
        self.elems()
            .iter()
            .filter(|e| {
                let q = if e.style & 4 != 0 { '\'' } else { '"' };
                text.contains(&format!("c={}e{}{}", q, e.id, q))
            })
            .map(|e| e.id)
            .collect()
    }

    pub fn n_lines(&self) -> usize {
        self.render().split('\n').count()
    }

    /// All documents obtained by one structural simplification (for shrinking).
    pub fn shrink_candidates(&self) -> Vec<Doc> {
        let mut out = Vec::new();
        // remove one node / replace an element by its children / simplify an element
        fn paths(nodes: &[Node], prefix: &mut Vec<usize>, out: &mut Vec<Vec<usize>>) {
            for (i, n) in nodes.iter().enumerate() {
                prefix.push(i);
                out.push(prefix.clone());
                if let Node::Elem(e) = n {
                    paths(&e.children, prefix, out);
                }
                prefix.pop();
            }
        }
        let mut ps = Vec::new();
        paths(&self.nodes, &mut Vec::new(), &mut ps);
        fn get_vec<'a>(nodes: &'a mut Vec<Node>, path: &[usize]) -> (&'a mut Vec<Node>, usize) {
            if path.len() == 1 {
                (nodes, path[0])
            } else {
                match &mut nodes[path[0]] {
                    Node::Elem(e) => get_vec(&mut e.children, &path[1..]),
                    _ => unreachable!(),
                }
            }
        }
        for p in &ps {
            // drop the node
            let mut d = self.clone();
            {
                let (v, i) = get_vec(&mut d.nodes, p);
                v.remove(i);
            }
            out.push(d);
            // hoist children
            let mut d = self.clone();
            let mut changed = false;
            {
                let (v, i) = get_vec(&mut d.nodes, p);
                if let Node::Elem(e) = v[i].clone() {
                    if e.inline.is_none() {
                        v.splice(i..=i, e.children);
                        changed = true;
                    }
                }
            }
            if changed {
                out.push(d);
            }
            // simplify fields of the element
            let mut variants: Vec<Box<dyn Fn(&mut Elem) -> bool>> = Vec::new();
            variants.push(Box::new(|e| std::mem::take(&mut e.skip)));
            variants.push(Box::new(|e| {
                let c = e.style != 0;
                e.style = 0;
                c
            }));
            variants.push(Box::new(|e| {
                let c = !e.indent.is_empty();
                e.indent.clear();
                c
            }));
            variants.push(Box::new(|e| std::mem::take(&mut e.double_ds)));
            variants.push(Box::new(|e| std::mem::take(&mut e.close_remark)));
            variants.push(Box::new(|e| std::mem::take(&mut e.last_child_closes_on_wrapper)));
            variants.push(Box::new(|e| e.inline_child.take().is_some()));
            variants.push(Box::new(|e| e.inline_next.take().is_some()));
            variants.push(Box::new(|e| e.wrapper_inline2.take().is_some()));
            variants.push(Box::new(|e| {
                let had = e.wrapper_inline.take().is_some();
                if had {
                    e.wrapper_inline = e.wrapper_inline2.take();
                }
                had
            }));
            variants.push(Box::new(|e| std::mem::take(&mut e.unwrap_degenerate)));
            variants.push(Box::new(|e| {
                let had = e.unwrap.take().is_some();
                if had {
                    e.wrapper_inline = None;
                    e.wrapper_inline2 = None;
                }
                had
            }));
            variants.push(Box::new(|e| {
                if let Some((a, b)) = &mut e.unwrap {
                    let c = a != "{" || b != "}";
                    *a = "{".into();
                    *b = "}".into();
                    c
                } else {
                    false
                }
            }));
            variants.push(Box::new(|e| {
                if let Some((a, b, c)) = &mut e.inline {
                    let ch = !(a.is_empty() && c.is_empty() && b == "b");
                    a.clear();
                    c.clear();
                    *b = "b".into();
                    ch
                } else {
                    false
                }
            }));
            for f in variants {
                let mut d = self.clone();
                let changed = {
                    let (v, i) = get_vec(&mut d.nodes, p);
                    match &mut v[i] {
                        Node::Elem(e) => f(e),
                        Node::Line(_) => false,
                    }
                };
                if changed {
                    out.push(d);
                }
            }
            // simplify a line
            let mut d = self.clone();
            let changed = {
                let (v, i) = get_vec(&mut d.nodes, p);
                match &mut v[i] {
                    Node::Line(s) if s != "x" => {
                        *s = "x".into();
                        true
                    }
                    _ => false,
                }
            };
            if changed {
                out.push(d);
            }
        }
        if !self.uses_default_delims() {
            let mut d = self.clone();
            d.ds = DEFAULT_DS.into();
            d.de = DEFAULT_DE.into();
            if d.text_is_delimiter_free() {
                out.push(d);
            }
        }
        if self.tl_tag != DEFAULT_TL {
            let mut d = self.clone();
            d.tl_tag = DEFAULT_TL.into();
            out.push(d);
        }
        if self.rm_tag != DEFAULT_RM {
            let mut d = self.clone();
            d.rm_tag = DEFAULT_RM.into();
            out.push(d);
        }
        if !self.final_newline {
            let mut d = self.clone();
            d.final_newline = true;
            out.push(d);
        }
        if self.crlf {
            let mut d = self.clone();
            d.crlf = false;
            out.push(d);
        }
        if self.bom {
            let mut d = self.clone();
            d.bom = false;
            out.push(d);
        }
        if self.exact_size.is_some() {
            let mut d = self.clone();
            d.exact_size = None;
            out.push(d);
        }
        if let Some((n, at_start)) = self.pad {
            let mut d = self.clone();
            d.pad = None;
            out.push(d);
            if n > 1 {
                let mut d = self.clone();
                d.pad = Some((n / 2, at_start));
                out.push(d);
                let mut d = self.clone();
                d.pad = Some((n - 1, at_start));
                out.push(d);
            }
        }
        out
    }

    /// True when no text line (code line, wrapper, inline text) contains a delimiter.
    pub fn text_is_delimiter_free(&self) -> bool {
        fn walk(doc: &Doc, nodes: &[Node]) -> bool {
            let ok = |s: &str| !s.contains(&doc.ds) && !s.contains(&doc.de);
            nodes.iter().all(|n| match n {
                Node::Line(s) => ok(s),
                Node::Elem(e) => {
                    e.unwrap.as_ref().map_or(true, |(a, b)| ok(a) && ok(b))
                        && e.wrapper_inline.as_ref().map_or(true, |(_, x)| x.inline.as_ref().map_or(true, |(a, b, c)| ok(a) && ok(b) && ok(c)))
                        && e.wrapper_inline2.as_ref().map_or(true, |(_, x)| x.inline.as_ref().map_or(true, |(a, b, c)| ok(a) && ok(b) && ok(c)))
                        && e.inline.as_ref().map_or(true, |(a, b, c)| ok(a) && ok(b) && ok(c))
                        && walk(doc, &e.children)
                }
            })
        }
        walk(self, &self.nodes)
    }
}

// ---------------------------------------------------------------------------
// Generator
// ---------------------------------------------------------------------------

pub struct GenParams<'a> {
    pub max_elems: usize,
    pub max_depth: usize,
    /// pool of `to` values for time-limited elements
    pub tos: &'a [Option<AttrVal>],
    /// pool of marker names
    pub names: &'a [Option<AttrVal>],
    pub allow_unwrap: bool,
    /// inline elements on unwrap wrapper lines, and unwrap-blocks that can never be unwrapped
    pub allow_wrapper_layouts: bool,
    pub allow_inline: bool,
    pub allow_multiline_tag: bool,
    pub allow_other: bool,
    pub allow_skip: bool,
    /// probability (in 1/8ths) that an element is time-limited rather than marker
    pub tl_eighths: u64,
    pub default_config_eighths: u64,
    /// about 1 % of the documents get hundreds of kilobytes of filler lines
    pub large_inputs: bool,
    /// probability (in 1/8ths) of CR LF line endings
    pub crlf_eighths: u64,
}

pub struct DocGen<'a, 'b> {
    pub rng: &'b mut Rng,
    pub p: &'b GenParams<'a>,
    pub next_id: u32,
    pub budget: usize,
    /// this document may nest deeper / hold more siblings than usual
    pub max_depth: usize,
    pub wide: bool,
}

impl<'a, 'b> DocGen<'a, 'b> {
    fn line(&mut self, indent: &str, ds: &str, de: &str) -> String {
        for _ in 0..8 {
            let r = self.rng.below(16);
            let s = if r == 0 {
                String::new() // blank line
            } else if r == 1 {
                self.rng.pick(&["  ", "\t", " "]).to_string() // whitespace-only line
            } else if r == 3 && self.p.allow_other && self.rng.chance(1, 6) {
                // a stray tag of an unregistered name: an opener that is never closed, or a closer
                // that was never opened (inert text as far as cleaning is concerned)
                // (different names, so that a stray opener and a stray closer can never pair up
                // across an element boundary, which would make the document improperly nested)
                let tag = if self.rng.chance(1, 2) { "stray-note-open c=\"x\"" } else { "/stray-note-close" };
                format!("{}{} {} {}", indent, ds, tag, de)
            } else if r == 2 && self.p.large_inputs && self.rng.chance(1, 40) {
                // a very long line (minified code): crosses line-buffer and block sizes
                let n = *self.rng.pick(&[1_100usize, 9_000, 70_000]);
                format!("{}var a=[{}];", indent, "1,".repeat(n / 2))
            } else {
                format!("{}{}", indent, self.rng.pick(CODE_LINES))
            };
            let is_stray = s.contains("stray-note");
            if is_stray || (!s.contains(ds) && !s.contains(de)) {
                return s;
            }
        }
        format!("{}ok", indent)
    }

    fn nodes(&mut self, depth: usize, indent: &str, ds: &str, de: &str, min: usize, max: usize) -> Vec<Node> {
        let max = if self.wide && depth == 0 { max * 8 } else { max };
        let n = min + self.rng.usize(max - min + 1);
        let mut v = Vec::new();
        for _ in 0..n {
            let want_elem = self.budget > 0 && depth < self.max_depth && self.rng.chance(if self.wide { 3 } else { 2 }, 5);
            if want_elem {
                self.budget -= 1;
                v.push(Node::Elem(self.elem(depth, indent, ds, de)));
            } else {
                v.push(Node::Line(self.line(indent, ds, de)));
            }
        }
        v
    }

    /// A default-strategy element written on one line.  `free`: with random prefix/suffix text
    /// (otherwise bare, for use on a wrapper line).
    fn inline_elem(&mut self, indent: &str, ds: &str, de: &str, free: bool) -> Option<Elem> {
        let id = self.next_id;
        self.next_id += 1;
        let kind = if self.rng.chance(self.p.tl_eighths, 8) { Kind::Tl } else { Kind::Rm };
        let (to, name) = match kind {
            Kind::Tl => (self.rng.pick(self.p.tos).clone(), None),
            _ => (None, self.rng.pick(self.p.names).clone()),
        };
        let (pre, suf) = if free {
            (self.rng.pick(&["", "a ", "foo(); "]).to_string(), self.rng.pick(&["", " c", " // tail"]).to_string())
        } else {
            (String::new(), String::new())
        };
        let body = self.rng.pick(&["b", " inner ", "warn()", "テキスト", ""]).to_string();
        let ok = |s: &str| !s.contains(ds) && !s.contains(de);
        if !(ok(&pre) && ok(&body) && ok(&suf)) {
            return None;
        }
        Some(Elem {
            id,
            kind,
            to,
            name,
            to_dup: None,
            double_ds: false,
            close_remark: false,
            last_child_closes_on_wrapper: false,
            skip: self.p.allow_skip && self.rng.chance(1, 12),
            unwrap: None,
            indent: indent.to_string(),
            style: self.rng.below(32) as u8,
            inline: Some((pre, body, suf)),
            children: vec![],
            wrapper_inline: None,
            wrapper_inline2: None,
            inline_child: None,
            inline_next: None,
            unwrap_degenerate: false,
        })
    }

    fn elem(&mut self, depth: usize, parent_indent: &str, ds: &str, de: &str) -> Elem {
        let id = self.next_id;
        self.next_id += 1;
        let kind = if self.p.allow_other && self.rng.chance(1, 10) {
            Kind::Other(self.rng.pick(OTHER_TAGS).to_string())
        } else if self.rng.chance(self.p.tl_eighths, 8) {
            Kind::Tl
        } else {
            Kind::Rm
        };
        let (to, name) = match kind {
            Kind::Tl => (self.rng.pick(self.p.tos).clone(), None),
            Kind::Rm => (None, self.rng.pick(self.p.names).clone()),
            Kind::Other(_) => {
                // looks removable but is not registered
                if self.rng.chance(1, 2) {
                    (self.rng.pick(self.p.tos).clone(), None)
                } else {
                    (None, self.rng.pick(self.p.names).clone())
                }
            }
        };
        let indent = if self.rng.chance(3, 4) {
            parent_indent.to_string()
        } else {
            self.rng.pick(INDENTS).to_string()
        };
        let mut style = self.rng.below(32) as u8;
        if self.rng.chance(1, 10) {
            style |= 0x80;
        }
        let inline = self.p.allow_inline && self.rng.chance(1, 8);
        let unwrap = !inline && self.p.allow_unwrap && self.rng.chance(1, 3);
        if self.p.allow_multiline_tag && !inline && self.rng.chance(1, 10) {
            style |= 0x40;
            if self.rng.chance(1, 2) {
                style |= 0x20;
            }
        }
        let skip = self.p.allow_skip && self.rng.chance(1, 12);
        let double_ds = self.rng.chance(1, 40);
        let mut e = Elem {
            id,
            kind,
            to,
            name,
            to_dup: None,
            double_ds,
            close_remark: self.rng.chance(1, 15),
            // never generated: a child's closing tag on the closing wrapper line is a "tag on a
            // wrapper line" (C11's exclusion): when the unwrap-block is ready and the child is not,
            // the child's closing tag goes with the wrapper line and stepwise legitimately differs
            last_child_closes_on_wrapper: false,
            skip,
            unwrap: None,
            indent: indent.clone(),
            style,
            inline: None,
            children: vec![],
            wrapper_inline: None,
            wrapper_inline2: None,
            inline_child: None,
            inline_next: None,
            unwrap_degenerate: false,
        };
        if inline {
            let pre = self.rng.pick(&["", "a ", "foo(); ", "値 "]).to_string();
            let body = self.rng.pick(&["b", " inner ", "<b>x</b>", "テキスト", ""]).to_string();
            let suf = self.rng.pick(&["", " c", " // tail", " 後"]).to_string();
            let ok = |s: &str| !s.contains(ds) && !s.contains(de);
            if ok(&pre) && ok(&body) && ok(&suf) {
                e.inline = Some((pre, body, suf));
                // now and then a second inline element follows on the same line
                if self.budget > 0 && self.rng.chance(1, 4) {
                    self.budget -= 1;
                    if let Some(n) = self.inline_elem("", ds, de, false) {
                        e.inline_next = Some((self.rng.chance(1, 2), Box::new(n)));
                        if self.rng.chance(1, 2) {
                            if let Some(i) = e.inline.as_mut() {
                                i.0.clear(); // the first element starts the line
                            }
                        }
                    }
                }
                // now and then another inline element sits inside, sometimes with nothing around it
                if self.budget > 0 && self.rng.chance(1, 4) {
                    self.budget -= 1;
                    if let Some(mut c) = self.inline_elem("", ds, de, false) {
                        if self.rng.chance(1, 2) {
                            if let Some(i) = e.inline.as_mut() {
                                i.1.clear();
                            }
                        }
                        if self.budget > 0 && self.rng.chance(1, 4) {
                            self.budget -= 1;
                            c.inline_child = self.inline_elem("", ds, de, false).map(Box::new);
                        }
                        e.inline_child = Some(Box::new(c));
                    }
                }
                return e;
            }
        }
        let inner_indent = if unwrap || self.rng.chance(1, 2) { format!("{}  ", indent) } else { indent.clone() };
        if unwrap && self.p.allow_wrapper_layouts && self.rng.chance(1, 6) {
            // an unwrap-block that can never be unwrapped: no wrapper lines, at most one line inside
            e.unwrap_degenerate = true;
            match self.rng.below(3) {
                0 => {}
                1 => e.children = vec![Node::Line(self.line(&inner_indent, ds, de))],
                _ => {
                    if self.budget > 0 {
                        self.budget -= 1;
                        if let Some(x) = self.inline_elem(&inner_indent, ds, de, true) {
                            e.children = vec![Node::Elem(x)];
                        }
                    }
                }
            }
            return e;
        }
        if unwrap {
            let (a, b) = self.rng.pick(WRAPPERS);
            let wi = if self.rng.chance(4, 5) { indent.clone() } else { self.rng.pick(INDENTS).to_string() };
            let (a, b) = (format!("{}{}", wi, a), format!("{}{}", wi, b));
            if !a.contains(ds) && !a.contains(de) && !b.contains(ds) && !b.contains(de) {
                e.unwrap = Some((a, b));
            } else {
                e.unwrap = Some((format!("{}{{", wi), format!("{}}}", wi)));
            }
            e.children = self.nodes(depth + 1, &inner_indent, ds, de, 0, 4);
            if self.p.allow_wrapper_layouts && self.budget > 0 && self.rng.chance(1, 5) {
                self.budget -= 1;
                if let Some(x) = self.inline_elem("", ds, de, false) {
                    let pos = self.rng.below(4) as u8;
                    e.wrapper_inline = Some((pos, Box::new(x)));
                    if self.budget > 0 && self.rng.chance(1, 2) {
                        self.budget -= 1;
                        if let Some(y) = self.inline_elem("", ds, de, false) {
                            let pos2 = (pos + 1 + self.rng.below(3) as u8) % 4;
                            e.wrapper_inline2 = Some((pos2, Box::new(y)));
                        }
                    }
                }
            }
        } else {
            e.children = self.nodes(depth + 1, &inner_indent, ds, de, 0, 3);
        }
        e
    }
}

pub fn generate(rng: &mut Rng, p: &GenParams) -> Doc {
    let (ds, de, tl, rm) = if rng.chance(p.default_config_eighths, 8) {
        (DEFAULT_DS.to_string(), DEFAULT_DE.to_string(), DEFAULT_TL.to_string(), DEFAULT_RM.to_string())
    } else {
        let (a, b) = rng.pick(DELIMS);
        (a.to_string(), b.to_string(), rng.pick(TL_TAGS).to_string(), rng.pick(RM_TAGS).to_string())
    };
    // mostly small documents; now and then many elements or deep nesting
    let (budget, max_depth, wide) = match rng.below(100) {
        0 => (20 + rng.usize(40), p.max_depth, true),
        1 => (4 + rng.usize(10), p.max_depth + 5, false),
        _ => (1 + rng.usize(p.max_elems), p.max_depth, false),
    };
    let mut g = DocGen { rng, p, next_id: 1, budget, max_depth, wide };
    let mut nodes = g.nodes(0, "", &ds, &de, 1, 6);
    // rarely: a tower of 34..45 nested elements (deeper than any fixed-size limit one might pick)
    if p.large_inputs && g.rng.chance(1, 400) {
        let levels = 34 + g.rng.usize(12);
        let mut inner: Vec<Node> = vec![Node::Line("core();".to_string())];
        g.budget = levels;
        for _ in 0..levels {
            let mut e = g.elem(p.max_depth + 100, "", &ds, &de);
            if e.inline.is_some() || e.unwrap_degenerate {
                continue;
            }
            e.children = inner;
            inner = vec![Node::Elem(e)];
        }
        nodes.extend(inner);
    }
    // make sure there is at least one element
    if g.next_id == 1 {
        let e = g.elem(0, "", &ds, &de);
        let at = g.rng.usize(nodes.len() + 1);
        nodes.insert(at, Node::Elem(e));
    }
    let final_newline = g.rng.chance(5, 6);
    let pad = if p.large_inputs && g.rng.chance(1, 100) { Some((*g.rng.pick(&[300u32, 2_000, 6_000]), g.rng.chance(1, 2))) } else { None };
    let crlf = p.crlf_eighths > 0 && g.rng.chance(p.crlf_eighths, 8);
    let bom = p.large_inputs && g.rng.chance(1, 40);
    let exact_size = if p.large_inputs && g.rng.chance(1, 100) { Some(*g.rng.pick(&[1_024u32, 4_096, 8_192, 16_384, 65_536, 131_072])) } else { None };
    Doc { ds, de, tl_tag: tl, rm_tag: rm, nodes, final_newline, pad, crlf, bom, exact_size }
}
