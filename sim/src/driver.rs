//! Seeded search over scenarios: worker processes, aggregation, minimisation,
//! replay files, known findings and the evidence file.

use crate::common::{fnv, RunStats, Violation};
use crate::scen::{self, Scenario};
use serde::{Deserialize, Serialize};
use std::collections::{BTreeMap, BTreeSet};
use std::io::Write;
use std::path::{Path, PathBuf};
use std::time::Instant;

pub const DEFAULT_SEED: u64 = 20261004;
/// The first scenarios of every run are executed a second time, by another set of worker
/// processes, and their event-log hashes compared (built-in determinism re-check).
pub const DETERMINISM_SAMPLE: u64 = 1500;

#[derive(Serialize, Deserialize, Default, Debug)]
pub struct WorkerOut {
    pub scenarios: u64,
    pub execs: u64,
    pub nontrivial: u64,
    pub unevaluable: u64,
    pub sim_seconds: i64,
    pub counters: BTreeMap<String, u64>,
    /// (scenario index, invariant id, signature) of every violating scenario (capped)
    pub violations: Vec<(u64, String, String)>,
    pub violations_total: u64,
    /// per-scenario hash of the complete event log (only when asked)
    pub log_hashes: Vec<(u64, u64)>,
    pub samples: Vec<serde_json::Value>,
    pub wall_s: f64,
}

pub struct WorkerArgs {
    pub prop: String,
    pub seed: u64,
    pub from: u64,
    pub to: u64,
    pub stride: u64,
    pub offset: u64,
    pub out: PathBuf,
    pub dump_hashes: bool,
}

pub fn worker(a: &WorkerArgs) {
    crate::c05::check_tables();
    crate::world::sandbox_enter();
    let t0 = Instant::now();
    let mut out = WorkerOut::default();
    let mut fps: Vec<u64> = Vec::new();
    let mut i = a.from + a.offset;
    while i < a.to {
        let scn = scen::generate(&a.prop, a.seed, i);
        let (v, st) = run_once(&scn, false);
        out.scenarios += 1;
        out.execs += st.execs;
        out.sim_seconds += st.sim_seconds;
        for (k, n) in &st.counters {
            *out.counters.entry(k.clone()).or_insert(0) += n;
        }
        if st.unevaluable {
            out.unevaluable += 1;
        }
        if st.nontrivial {
            out.nontrivial += 1;
            fps.push(st.fingerprint);
        }
        if a.dump_hashes || i < DETERMINISM_SAMPLE {
            let mut h = st.log_hash;
            fnv(&mut h, &st.fingerprint.to_le_bytes());
            if let Some(v) = &v {
                fnv(&mut h, v.invariant.as_bytes());
            }
            out.log_hashes.push((i, h));
        }
        if let Some(v) = v {
            out.violations_total += 1;
            let hang = v.signature == "hang";
            if out.violations.len() < 64 {
                out.violations.push((i, v.invariant, v.signature));
            }
            if hang {
                break; // one is enough; every further one would cost the full time budget
            }
        }
        if out.samples.len() < 2 && a.offset == 0 {
            out.samples.push(scn.sample());
        }
        i += a.stride;
    }
    out.wall_s = t0.elapsed().as_secs_f64();
    fps.sort_unstable();
    fps.dedup();
    let mut fb = Vec::with_capacity(fps.len() * 8);
    for f in &fps {
        fb.extend_from_slice(&f.to_le_bytes());
    }
    std::fs::write(a.out.with_extension("fp"), fb).expect("write fingerprints");
    std::fs::write(&a.out, serde_json::to_vec(&out).unwrap()).expect("write worker output");
    crate::world::sandbox_leave();
}

pub struct RunArgs {
    pub prop: String,
    pub tier: String,
    pub seed: u64,
    pub scenarios: u64,
    pub workers: u64,
    pub verif_dir: PathBuf,
    pub write_evidence: bool,
    pub dump_hashes: bool,
}

pub struct Aggregate {
    pub out: WorkerOut,
    pub distinct_nontrivial: u64,
    pub wall_s: f64,
    pub log_hashes: BTreeMap<u64, u64>,
}

pub fn spawn_workers(a: &RunArgs, tag: &str) -> Result<Aggregate, String> {
    let t0 = Instant::now();
    let work = a.verif_dir.join("work").join(format!("{}-{}-{}", a.prop, tag, std::process::id()));
    std::fs::create_dir_all(&work).map_err(|e| format!("mkdir {:?}: {}", work, e))?;
    let exe = std::env::current_exe().map_err(|e| e.to_string())?;
    let mut kids = Vec::new();
    for w in 0..a.workers {
        let outp = work.join(format!("w{}.json", w));
        let mut cmd = std::process::Command::new(&exe);
        cmd.arg("worker")
            .arg("--prop")
            .arg(&a.prop)
            .arg("--seed")
            .arg(a.seed.to_string())
            .arg("--from")
            .arg("0")
            .arg("--to")
            .arg(a.scenarios.to_string())
            .arg("--stride")
            .arg(a.workers.to_string())
            .arg("--offset")
            .arg(w.to_string())
            .arg("--out")
            .arg(&outp);
        if a.dump_hashes {
            cmd.arg("--dump-hashes");
        }
        let child = cmd.spawn().map_err(|e| format!("spawn worker: {}", e))?;
        kids.push((child, outp));
    }
    let mut agg = WorkerOut::default();
    let mut fps: Vec<u64> = Vec::new();
    let mut log_hashes = BTreeMap::new();
    for (mut child, outp) in kids {
        let st = child.wait().map_err(|e| e.to_string())?;
        if !st.success() {
            return Err(format!("worker failed: {:?}", st));
        }
        let w: WorkerOut = serde_json::from_slice(&std::fs::read(&outp).map_err(|e| e.to_string())?).map_err(|e| e.to_string())?;
        let fb = std::fs::read(outp.with_extension("fp")).map_err(|e| e.to_string())?;
        for c in fb.chunks_exact(8) {
            fps.push(u64::from_le_bytes(c.try_into().unwrap()));
        }
        agg.scenarios += w.scenarios;
        agg.execs += w.execs;
        agg.nontrivial += w.nontrivial;
        agg.unevaluable += w.unevaluable;
        agg.sim_seconds += w.sim_seconds;
        agg.violations_total += w.violations_total;
        for (k, n) in w.counters {
            *agg.counters.entry(k).or_insert(0) += n;
        }
        agg.violations.extend(w.violations);
        agg.samples.extend(w.samples);
        for (i, h) in w.log_hashes {
            log_hashes.insert(i, h);
        }
    }
    let _ = std::fs::remove_dir_all(&work);
    fps.sort_unstable();
    fps.dedup();
    agg.violations.sort();
    Ok(Aggregate { out: agg, distinct_nontrivial: fps.len() as u64, wall_s: t0.elapsed().as_secs_f64(), log_hashes })
}

// ---------------------------------------------------------------------------
// Known findings
// ---------------------------------------------------------------------------

pub struct Known {
    pub property: String,
    pub signature: String,
    pub what: String,
}

/// Lines of /verif/known_findings.txt:
///   known: property=<id> signature=<sig> <what fails>
///   fixed: property=<id> <commit> <what failed>         (suppresses nothing)
pub fn load_known(verif_dir: &Path) -> Vec<Known> {
    let mut v = Vec::new();
    // VERIF_KNOWN_FILE: used only by the sensitivity self-test to exercise this path
    let file = std::env::var("VERIF_KNOWN_FILE").map(PathBuf::from).unwrap_or_else(|_| verif_dir.join("known_findings.txt"));
    if let Ok(s) = std::fs::read_to_string(file) {
        for line in s.lines() {
            let line = line.trim();
            if let Some(rest) = line.strip_prefix("known:") {
                let mut prop = String::new();
                let mut sig = String::new();
                let mut what = Vec::new();
                for tok in rest.split_whitespace() {
                    if let Some(p) = tok.strip_prefix("property=") {
                        prop = p.to_string();
                    } else if let Some(s) = tok.strip_prefix("signature=") {
                        sig = s.to_string();
                    } else {
                        what.push(tok);
                    }
                }
                if !prop.is_empty() && !sig.is_empty() {
                    v.push(Known { property: prop, signature: sig, what: what.join(" ") });
                }
            }
        }
    }
    v
}

// ---------------------------------------------------------------------------
// Minimisation and replay files
// ---------------------------------------------------------------------------

/// Executes a scenario in this process (used by `replay`, which is a fresh process already).
pub fn run_here(scn: &Scenario, transcript: bool) -> (Option<Violation>, RunStats) {
    // the deterministic random stream starts before anything is forked, so that the reference
    // server and its children are inside it too
    crate::world::random_begin_scenario();
    crate::world::sandbox_enter();
    crate::world::sandbox_reset();
    if scn.needs_fresh_reference() {
        crate::iso::start_reference_server();
    }
    crate::world::KEEP_LOG.store(transcript, std::sync::atomic::Ordering::Relaxed);
    let mut st = RunStats::new(transcript);
    let v = scn.run(&mut st);
    crate::iso::stop_reference_server();
    (v, st)
}

/// Executes a scenario in a forked child of this (pristine) process.
pub fn run_once(scn: &Scenario, transcript: bool) -> (Option<Violation>, RunStats) {
    match crate::iso::in_child(|| run_here(scn, transcript)) {
        Ok(r) => r,
        Err(e) if e.starts_with("timeout") => {
            // the code under test did not terminate: no property holds for a run that never ends
            let mut st = RunStats::new(false);
            st.bump("scenario_timed_out");
            let v = Violation {
                invariant: format!("{}.run_terminates", scn.prop()),
                signature: "hang".into(),
                detail: format!("{} (a simulated execution of the code under test loops or blocks forever)", e),
                step: 0,
            };
            (Some(v), st)
        }
        Err(e) => {
            // the scenario process itself died (abort / stack overflow in the code under test):
            // a totality matter, counted, not judged here
            let mut st = RunStats::new(false);
            st.unevaluable = true;
            st.bump("unevaluable_scenario_process_died");
            st.note(e);
            (None, st)
        }
    }
}

/// The part of a signature that names the kind of failure (before the first ':').
fn sig_kind(sig: &str) -> &str {
    sig.split(':').next().unwrap_or(sig)
}

/// Greedy structural shrinking while the same invariant keeps failing *in the same way*
/// (same signature kind), so that one class of violation does not drift into another.
pub fn minimise(scn: Scenario, invariant: &str, budget: &mut u64) -> Scenario {
    if invariant.ends_with(".run_terminates") {
        return scn; // every attempt would cost the full time budget
    }
    let kind: Option<String> = run_once(&scn, false).0.map(|v| sig_kind(&v.signature).to_string());
    let mut cur = scn;
    loop {
        let mut improved = false;
        for cand in cur.shrink_candidates() {
            if *budget == 0 {
                return cur;
            }
            *budget -= 1;
            if let (Some(v), _) = run_once(&cand, false) {
                if v.invariant == invariant && kind.as_deref().map_or(true, |k| sig_kind(&v.signature) == k) {
                    cur = cand;
                    improved = true;
                    break;
                }
            }
        }
        if !improved {
            return cur;
        }
    }
}

#[derive(Serialize, Deserialize)]
pub struct ReplayFile {
    pub property: String,
    pub seed: u64,
    pub index: u64,
    pub invariant: String,
    pub signature: String,
    pub detail: String,
    pub rendered_source: String,
    pub scenario: Scenario,
    pub original_scenario_size: usize,
    pub minimised_scenario_size: usize,
    pub transcript: Vec<String>,
}

pub fn replay(path: &Path) -> i32 {
    let bytes = match std::fs::read(path) {
        Ok(b) => b,
        Err(e) => {
            eprintln!("replay: cannot read {:?}: {}", path, e);
            return 2;
        }
    };
    let rf: ReplayFile = match crate::common::json_from_slice(&bytes) {
        Ok(r) => r,
        Err(e) => {
            eprintln!("replay: cannot parse {:?}: {}", path, e);
            return 2;
        }
    };
    crate::world::sandbox_enter();
    let (v, st) = run_once(&rf.scenario, true);
    println!("--- source under test ---\n{}\n--- transcript ---", rf.rendered_source);
    for l in &st.transcript {
        println!("{}", l);
    }
    match v {
        Some(v) => {
            println!("invariant {} violated at step {}: {}", v.invariant, v.step, v.detail);
            println!("signature {}", v.signature);
            if v.invariant == rf.invariant {
                println!("VIOLATION property={} replay={}", rf.property, path.display());
                1
            } else {
                println!("replay produced a different invariant than recorded ({})", rf.invariant);
                println!("VIOLATION property={} replay={}", rf.property, path.display());
                1
            }
        }
        None => {
            println!("replay: property held (recorded invariant {} did not fail)", rf.invariant);
            0
        }
    }
}

// ---------------------------------------------------------------------------
// The check
// ---------------------------------------------------------------------------

fn components() -> serde_json::Value {
    serde_json::json!({
        "real": [
            "chiritori library (tokenizer, parser, remover, formatter, list) from /repo's working tree",
            "chiritori-cli/src/main.rs, included verbatim",
            "clap 4.5 derive parser (argv supplied through try_get_matches_from)",
            "chrono 0.4.38 (Local::now, tz lookup through TZ / /usr/share/zoneinfo, FromStr, parse_from_str)",
            "std: Read::read_to_string, Write::write_all, BufReader::lines, LineWriter (in front of the simulated stdout descriptor), fmt"
        ],
        "stub": [
            "std::fs::File / OpenOptions (in-memory file system with short transfers, EINTR, crash points)",
            "std::io::stdin/stderr and the descriptor under stdout (captured, with short transfers / EINTR)",
            "atty::isnt",
            "std::process::exit and panics (unwound to the simulator, mapped to exit status)",
            "kernel clock: clock_gettime(CLOCK_REALTIME) interposed at link time",
            "argv and the TZ/LANG/LC_ALL environment (set per execution by the worker process)"
        ]
    })
}

pub fn rule_text(prop: &str) -> &'static str {
    match prop {
        "C05" => "scenario = one AST document of time-limited blocks (canonical, malformed and grey-zone `to` values clustered around boundaries) + one offset + a history of 3..8 simulated CLI executions at non-decreasing instants on the boundary lattice, each reading the simulated clock or given the instant explicitly under decoy clock/TZ; evaluations = simulated process executions. A scenario is non-trivial when at least one element flipped from kept to removed along the history AND at least one perturbation fired (short/EINTR transfer, ticking clock, TZ set, decoy clock); distinct = distinct history fingerprints (hash of per-execution label, faults fired, exit status, delivered bytes).",
        "C19" => "scenario = one AST document + a discrete-event history (cron ticks rewriting the file in place through the real main.rs, duplicate/lost/delayed ticks, crashes before/after commit with retry, config growth, clock steps, TZ changes, short/EINTR transfers); evaluations = simulated process executions incl. the shadow duplicate of each tick. Non-trivial: at least two ticks removed something (a genuinely stepwise history) AND at least one fault/perturbation fired; distinct = distinct history fingerprints (hash of event kinds, faults fired, statuses and resulting file bytes).",
        "C20" => "scenario = one AST document + one option set + a bundle of 3..7 variants differing only in input path, output path (new, pre-existing longer/shorter, aliasing the input), flag-vs-config-file split, option spelling and order, TZ/locale, explicit time vs frozen clock (with decoy), and I/O schedule; evaluations = simulated process executions. Non-trivial: the library reference removed/listed something AND at least one short/EINTR transfer actually fired; distinct = distinct bundle fingerprints (hash of per-variant label, faults fired, exit status, delivered bytes).",
        _ => "",
    }
}

pub fn tier_scenarios(prop: &str, tier: &str) -> u64 {
    let quick = match prop {
        "C05" => 40_000,
        "C19" => 40_000,
        "C20" => 40_000,
        _ => 1_000,
    };
    if tier == "thorough" {
        quick * 50
    } else {
        quick
    }
}

/// Probes that must be non-zero in a thorough run (otherwise the workload needs retuning: exit 2).
pub fn required_probes(prop: &str) -> &'static [&'static str] {
    match prop {
        "C05" => &[
            "short_read_fired",
            "eintr_read_fired",
            "short_write_fired",
            "clock_tick_per_read_fired",
            "clock_freeze_fired",
            "decoy_clock_fired",
            "library_sessions",
            "probe_boundary_instant_hit_exactly",
            "probe_one_nanosecond_before_expiry",
            "probe_offset_moves_expiry_across_date",
            "probe_same_instant_different_environment",
            "probe_offset_changes_between_runs",
            "grey_zone_judged_by_history_only",
        ],
        "C19" => &[
            "short_read_fired",
            "short_write_fired",
            "eintr_read_fired",
            "eintr_write_fired",
            "tick_dup_fired",
            "tick_lost_fired",
            "tick_delayed_fired",
            "tick_retry_fired",
            "crash_before_commit_fired",
            "crash_after_commit_fired",
            "config_grows_fired",
            "clock_step_fwd_fired",
            "clock_tick_per_read_fired",
            "tz_change_fired",
            "library_sessions",
            "fresh_process_references",
            "probe_duplicate_tick_right_after_removing_tick",
            "probe_history_with_two_or_more_removing_ticks",
            "probe_inline_element_on_unwrap_wrapper_line",
            "probe_unwrap_block_that_cannot_be_unwrapped",
        ],
        "C20" => &[
            "short_read_fired",
            "short_write_fired",
            "eintr_read_fired",
            "eintr_write_fired",
            "probe_output_shorter_than_preexisting_file",
            "probe_output_aliases_input",
            "probe_inplace_result_shorter_than_source",
            "probe_crlf_config",
            "probe_targets_from_file_and_flags",
            "probe_no_target_option_or_empty_set",
            "probe_explicit_time_under_tz",
            "probe_multibyte_split_by_short_read",
            "hardprobe_eio_read",
            "hardprobe_enospc_write",
            "hardprobe_epipe_stdout",
            "hardprobe_crash_mid_commit",
            "hardprobe_invalid_utf8_input",
            "hardprobe_invalid_utf8_config_line",
            "hardprobe_stdin_is_tty",
        ],
        _ => &[],
    }
}

pub fn scenario_size(s: &Scenario) -> usize {
    serde_json::to_string(s).map(|x| x.len()).unwrap_or(0)
}

pub fn check(a: &RunArgs) -> i32 {
    let t0 = Instant::now();
    // one scratch directory for this process and the scenario processes it forks (minimisation)
    crate::world::sandbox_enter();
    println!("check property={} tier={} VERIF_SEED={} scenarios={} workers={}", a.prop, a.tier, a.seed, a.scenarios, a.workers);
    // regression replays: minimised scenarios of defects found (and fixed) earlier must keep passing
    let mut regress_run = 0u64;
    let mut regress_files: Vec<PathBuf> = std::fs::read_dir(a.verif_dir.join("replays").join("regress"))
        .map(|rd| rd.flatten().map(|e| e.path()).collect())
        .unwrap_or_default();
    regress_files.sort();
    for f in regress_files {
        let name = f.file_name().and_then(|n| n.to_str()).unwrap_or("").to_string();
        if !name.starts_with(&a.prop) || !name.ends_with(".json") {
            continue;
        }
        let rf: ReplayFile = match std::fs::read(&f).ok().and_then(|b| crate::common::json_from_slice(&b).ok()) {
            Some(r) => r,
            None => {
                eprintln!("harness error: cannot read regression replay {:?}", f);
                return 2;
            }
        };
        regress_run += 1;
        if let (Some(v), _) = run_once(&rf.scenario, false) {
            if let Some(k) = load_known(&a.verif_dir).iter().find(|k| k.property == a.prop && k.signature == v.signature) {
                // a listed finding: reported below as KNOWN-FINDING when the exploration meets it
                println!("regression replay {} fails with the listed finding {}", f.display(), k.signature);
                continue;
            }
            println!("regression replay {} fails again: {} ({})", f.display(), v.invariant, v.signature);
            println!("{}", v.detail);
            println!("VIOLATION property={} replay={}", a.prop, f.display());
            return 1;
        }
    }
    println!("regression replays passed: {}", regress_run);
    let agg = match spawn_workers(a, "run") {
        Ok(x) => x,
        Err(e) => {
            eprintln!("harness error: {}", e);
            return 2;
        }
    };
    // built-in determinism re-check: same scenarios, other processes, other worker count
    let recheck_n = a.scenarios.min(DETERMINISM_SAMPLE);
    let a2 = RunArgs {
        prop: a.prop.clone(),
        tier: a.tier.clone(),
        seed: a.seed,
        scenarios: recheck_n,
        workers: 5,
        verif_dir: a.verif_dir.clone(),
        write_evidence: false,
        dump_hashes: true,
    };
    let agg2 = match spawn_workers(&a2, "recheck") {
        Ok(x) => x,
        Err(e) => {
            eprintln!("harness error: {}", e);
            return 2;
        }
    };
    let diverged: Vec<u64> = (0..recheck_n).filter(|i| agg.log_hashes.get(i) != agg2.log_hashes.get(i) || agg.log_hashes.get(i).is_none()).collect();
    if diverged.is_empty() {
        println!("determinism re-check: {} scenarios re-executed in other processes, identical event logs", recheck_n);
    }
    let o = &agg.out;
    println!(
        "explored scenarios={} executions={} distinct_nontrivial={} unevaluable={} violating_scenarios={} wall={:.1}s",
        o.scenarios, o.execs, agg.distinct_nontrivial, o.unevaluable, o.violations_total, agg.wall_s
    );

    if !o.violations.is_empty() {
        let mut by_sig: BTreeMap<String, (u64, u64)> = BTreeMap::new();
        for (i, inv, sig) in &o.violations {
            let e = by_sig.entry(format!("{} {}", inv, sig)).or_insert((0, *i));
            e.0 += 1;
        }
        for (k, (n, first)) in &by_sig {
            println!("  raw violation class: {} x{} (first at scenario index {})", k, n, first);
        }
    }
    let known = load_known(&a.verif_dir);
    let mut exit = 0;
    let mut reported_known: BTreeSet<String> = BTreeSet::new();
    let mut new_violation: Option<(PathBuf, ReplayFile)> = None;
    let mut minimise_budget: u64 = 20_000;
    let mut seen_sigs: BTreeSet<String> = BTreeSet::new();
    for (index, invariant, raw_sig) in &o.violations {
        // cheap pre-filter: an un-minimised signature already seen needs no second minimisation
        if !seen_sigs.insert(format!("{}|{}", invariant, raw_sig)) {
            continue;
        }
        if seen_sigs.len() > 12 {
            break;
        }
        let scn = scen::generate(&a.prop, a.seed, *index);
        let original_size = scenario_size(&scn);
        let min = minimise(scn, invariant, &mut minimise_budget);
        let (v, st) = run_once(&min, true);
        let v = match v {
            Some(v) => v,
            None => {
                eprintln!("harness error: minimised scenario {} no longer fails", index);
                return 2;
            }
        };
        if let Some(k) = known.iter().find(|k| k.property == a.prop && k.signature == v.signature) {
            if reported_known.insert(k.signature.clone()) {
                println!("KNOWN-FINDING: property={} {} (signature {})", a.prop, k.what, k.signature);
            }
            continue;
        }
        if new_violation.is_none() {
            let rf = ReplayFile {
                property: a.prop.clone(),
                seed: a.seed,
                index: *index,
                invariant: v.invariant.clone(),
                signature: v.signature.clone(),
                detail: v.detail.clone(),
                rendered_source: min.rendered_source(),
                minimised_scenario_size: scenario_size(&min),
                original_scenario_size: original_size,
                scenario: min,
                transcript: st.transcript.clone(),
            };
            let body = serde_json::to_vec_pretty(&rf).unwrap();
            let mut h = 0xcbf29ce484222325u64;
            fnv(&mut h, &serde_json::to_vec(&rf.scenario).unwrap());
            let dir = std::env::var("VERIF_REPLAY_DIR").map(PathBuf::from).unwrap_or_else(|_| a.verif_dir.join("replays"));
            let _ = std::fs::create_dir_all(&dir);
            let path = dir.join(format!("{}-{:016x}.json", a.prop, h));
            if let Err(e) = std::fs::write(&path, body) {
                eprintln!("harness error: cannot write replay file: {}", e);
                return 2;
            }
            new_violation = Some((path, rf));
        }
    }
    if let Some((path, rf)) = &new_violation {
        // confirm in a fresh process
        let exe = std::env::current_exe().unwrap();
        let st = std::process::Command::new(exe).arg("replay").arg(path).stdout(std::process::Stdio::null()).status();
        match st {
            Ok(s) if s.code() == Some(1) => {
                println!("violated invariant: {} (signature {})", rf.invariant, rf.signature);
                println!("{}", rf.detail);
                println!("scenario minimised from {} to {} bytes of JSON", rf.original_scenario_size, rf.minimised_scenario_size);
                println!("VIOLATION property={} replay={}", a.prop, path.display());
                exit = 1;
            }
            other => {
                eprintln!("harness error: replay of {:?} in a fresh process did not reproduce ({:?})", path, other);
                return 2;
            }
        }
    }

    // reach probes (thorough only)
    let mut zero_probes = Vec::new();
    for p in required_probes(&a.prop) {
        if o.counters.get(*p).copied().unwrap_or(0) == 0 {
            zero_probes.push(*p);
        }
    }

    let wall = t0.elapsed().as_secs_f64();
    if a.write_evidence {
        let faults: BTreeMap<&String, &u64> = o.counters.iter().filter(|(k, _)| k.ends_with("_fired")).collect();
        let probes: BTreeMap<&String, &u64> = o.counters.iter().filter(|(k, _)| k.starts_with("probe_")).collect();
        let other: BTreeMap<&String, &u64> = o.counters.iter().filter(|(k, _)| !k.ends_with("_fired") && !k.starts_with("probe_")).collect();
        let ev = serde_json::json!({
            "property_id": a.prop,
            "tier": a.tier,
            "seed": a.seed,
            "level": "exploration",
            "coverage": {
                "evaluations": o.execs,
                "scenarios": o.scenarios,
                "distinct_nontrivial": agg.distinct_nontrivial,
                "nontrivial_scenarios": o.nontrivial,
                "unevaluable_scenarios": o.unevaluable,
                "rule": rule_text(&a.prop),
                "samples": o.samples.iter().take(3).collect::<Vec<_>>(),
                "exhaustive": false,
                "faults_fired": faults,
                "reach_probes": probes,
                "other_counters": other,
                "probes_at_zero": zero_probes,
                "simulated_seconds_covered": o.sim_seconds,
                "runs_per_hour": (o.execs as f64 / agg.wall_s.max(1e-9) * 3600.0) as u64,
                "seeds_per_hour": (o.scenarios as f64 / agg.wall_s.max(1e-9) * 3600.0) as u64,
                "workers": a.workers,
                "components": components(),
                "known_findings_reported": reported_known.iter().collect::<Vec<_>>(),
                "regression_replays_passed": regress_run,
                "determinism_recheck": { "scenarios_re_executed_in_other_processes": recheck_n, "identical_event_logs": diverged.is_empty() },
            },
            "assumptions": [
                "the in-memory file system, stream and clock facades represent what std and the kernel may legally do (validated by `./check selftest fidelity` against the real binary)",
                "tzdata under /usr/share/zoneinfo and /etc/localtime are constant",
                "a clean batch is evidence over the explored scenarios, not a proof"
            ],
            "wall_s": wall,
            "violations": if exit == 1 { 1 } else { 0 },
        });
        let dir = a.verif_dir.join("evidence");
        let _ = std::fs::create_dir_all(&dir);
        let p = dir.join(format!("{}.json", a.prop));
        let mut f = std::fs::File::create(&p).expect("evidence file");
        f.write_all(serde_json::to_string_pretty(&ev).unwrap().as_bytes()).unwrap();
        f.write_all(b"\n").unwrap();
        println!("evidence written to {}", p.display());
    }
    // no verdict when the code under test fails (panics) on a large part of the workload: the
    // property cannot be said to have held on scenarios that could not be evaluated
    if exit == 0 && o.unevaluable * 20 > o.scenarios {
        eprintln!(
            "harness error: {} of {} scenarios could not be evaluated because the code under test panics on them (a totality matter, not decided here); no verdict on {}",
            o.unevaluable, o.scenarios, a.prop
        );
        return 2;
    }
    if exit == 0 && !diverged.is_empty() {
        eprintln!("harness error: {} of {} re-executed scenarios produced a different event log (first: {:?}); the simulation is not deterministic on this tree", diverged.len(), recheck_n, &diverged[..diverged.len().min(5)]);
        return 2;
    }
    if exit == 0 && a.tier == "thorough" && !zero_probes.is_empty() {
        eprintln!("harness error: reach probes stuck at zero in a thorough run: {:?}", zero_probes);
        return 2;
    }
    if exit == 0 {
        println!("OK property={} held on everything explored", a.prop);
    }
    exit
}
