//! Process isolation.  Every scenario is executed in a forked child of the
//! (single-threaded, never-touched-the-library) worker process, so hidden
//! process-wide state in the code under test (statics, caches) cannot leak from
//! one scenario into the next and a scenario stays a pure function of its
//! description.  A pristine "reference server" forked at the start of a
//! scenario answers one-shot library calls, each in its own freshly forked
//! process, i.e. with the state a brand-new process would have.

use serde::de::DeserializeOwned;
use serde::{Deserialize, Serialize};
use std::collections::BTreeSet;
use std::sync::Mutex;

fn write_all(fd: i32, mut buf: &[u8]) -> bool {
    while !buf.is_empty() {
        let n = unsafe { libc::write(fd, buf.as_ptr() as *const libc::c_void, buf.len()) };
        if n < 0 {
            let e = std::io::Error::last_os_error();
            if e.kind() == std::io::ErrorKind::Interrupted {
                continue;
            }
            return false;
        }
        buf = &buf[n as usize..];
    }
    true
}

fn read_exact(fd: i32, buf: &mut [u8]) -> bool {
    let mut off = 0;
    while off < buf.len() {
        let n = unsafe { libc::read(fd, buf[off..].as_mut_ptr() as *mut libc::c_void, buf.len() - off) };
        if n < 0 {
            let e = std::io::Error::last_os_error();
            if e.kind() == std::io::ErrorKind::Interrupted {
                continue;
            }
            return false;
        }
        if n == 0 {
            return false;
        }
        off += n as usize;
    }
    true
}

fn read_to_end(fd: i32) -> Vec<u8> {
    let mut out = Vec::new();
    let mut buf = [0u8; 65536];
    loop {
        let n = unsafe { libc::read(fd, buf.as_mut_ptr() as *mut libc::c_void, buf.len()) };
        if n < 0 {
            let e = std::io::Error::last_os_error();
            if e.kind() == std::io::ErrorKind::Interrupted {
                continue;
            }
            break;
        }
        if n == 0 {
            break;
        }
        out.extend_from_slice(&buf[..n as usize]);
    }
    out
}

fn write_frame(fd: i32, payload: &[u8]) -> bool {
    write_all(fd, &(payload.len() as u64).to_le_bytes()) && write_all(fd, payload)
}

fn read_frame(fd: i32) -> Option<Vec<u8>> {
    let mut len = [0u8; 8];
    if !read_exact(fd, &mut len) {
        return None;
    }
    let n = u64::from_le_bytes(len) as usize;
    let mut buf = vec![0u8; n];
    if !read_exact(fd, &mut buf) {
        return None;
    }
    Some(buf)
}

fn wait(pid: i32) -> i32 {
    let mut st = 0;
    loop {
        let r = unsafe { libc::waitpid(pid, &mut st, 0) };
        if r < 0 {
            let e = std::io::Error::last_os_error();
            if e.kind() == std::io::ErrorKind::Interrupted {
                continue;
            }
        }
        break;
    }
    st
}

/// Wall-clock budget of one scenario (a typical one takes milliseconds, the largest a few seconds).
pub const SCENARIO_TIMEOUT_MS: i32 = 90_000;

/// Runs `f` in a forked child and returns its (serialised) result.
/// `Err` = the child died (abort, stack overflow, kill): reported to the caller.
pub fn in_child<T: Serialize + DeserializeOwned>(f: impl FnOnce() -> T) -> Result<T, String> {
    let mut fds = [0i32; 2];
    if unsafe { libc::pipe(fds.as_mut_ptr()) } != 0 {
        return Err("pipe failed".into());
    }
    let pid = unsafe { libc::fork() };
    if pid < 0 {
        return Err("fork failed".into());
    }
    if pid == 0 {
        unsafe { libc::close(fds[0]) };
        let v = f();
        let bytes = serde_json::to_vec(&v).unwrap_or_default();
        write_all(fds[1], &bytes);
        unsafe { libc::_exit(0) };
    }
    unsafe { libc::close(fds[1]) };
    // hang protection: the child writes its result only when it is done; if nothing arrives
    // within the budget the code under test is looping (or blocked) and the child is killed
    let mut pfd = libc::pollfd { fd: fds[0], events: libc::POLLIN, revents: 0 };
    let ready = loop {
        let r = unsafe { libc::poll(&mut pfd, 1, SCENARIO_TIMEOUT_MS) };
        if r < 0 && std::io::Error::last_os_error().kind() == std::io::ErrorKind::Interrupted {
            continue;
        }
        break r;
    };
    if ready == 0 {
        unsafe {
            libc::kill(pid, libc::SIGKILL);
            libc::close(fds[0]);
        }
        wait(pid);
        return Err(format!("timeout: the scenario did not finish within {} s", SCENARIO_TIMEOUT_MS / 1000));
    }
    let bytes = read_to_end(fds[0]);
    unsafe { libc::close(fds[0]) };
    let st = wait(pid);
    if !(libc::WIFEXITED(st) && libc::WEXITSTATUS(st) == 0) {
        return Err(format!("scenario process died (wait status {:#x})", st));
    }
    serde_json::from_slice(&bytes).map_err(|e| format!("cannot decode child result: {}", e))
}

// ---------------------------------------------------------------------------
// Reference server: one-shot library calls, each in a fresh process
// ---------------------------------------------------------------------------

#[derive(Serialize, Deserialize)]
pub struct RefRequest {
    pub text: String,
    pub doc: crate::doc::Doc,
    pub offset: String,
    pub now: (i64, i64),
    pub targets: BTreeSet<String>,
    pub mode: crate::common::Mode,
    pub json: bool,
}

struct RefServer {
    req_w: i32,
    resp_r: i32,
    pid: i32,
}

static REF: Mutex<Option<RefServer>> = Mutex::new(None);

/// Must be called while this process is still pristine (has not run the code
/// under test) and single-threaded.
pub fn start_reference_server() {
    let mut g = REF.lock().unwrap();
    if g.is_some() {
        return;
    }
    let mut req = [0i32; 2];
    let mut resp = [0i32; 2];
    unsafe {
        if libc::pipe(req.as_mut_ptr()) != 0 || libc::pipe(resp.as_mut_ptr()) != 0 {
            return;
        }
    }
    let pid = unsafe { libc::fork() };
    if pid < 0 {
        return;
    }
    if pid == 0 {
        // zygote: stays pristine, forks once per request
        unsafe {
            libc::prctl(libc::PR_SET_PDEATHSIG, libc::SIGKILL);
            // keep only the two pipe ends this process needs (in particular not the result pipe
            // of the scenario process, whose reader waits for end-of-file)
            for fd in 3..512 {
                if fd != req[0] && fd != resp[1] {
                    libc::close(fd);
                }
            }
        }
        loop {
            let frame = match read_frame(req[0]) {
                Some(f) => f,
                None => unsafe { libc::_exit(0) },
            };
            let g = unsafe { libc::fork() };
            if g == 0 {
                let out: Result<String, String> = match crate::common::json_from_slice::<RefRequest>(&frame) {
                    Ok(r) => crate::common::lib_call(&r.text, &r.doc, &r.offset, r.now, &r.targets, r.mode, r.json),
                    Err(e) => Err(format!("bad request: {}", e)),
                };
                write_frame(resp[1], &serde_json::to_vec(&out).unwrap_or_default());
                unsafe { libc::_exit(0) };
            }
            let st = wait(g);
            if !(libc::WIFEXITED(st) && libc::WEXITSTATUS(st) == 0) {
                let out: Result<String, String> = Err("library process died".into());
                write_frame(resp[1], &serde_json::to_vec(&out).unwrap_or_default());
            }
        }
    }
    unsafe {
        libc::close(req[0]);
        libc::close(resp[1]);
    }
    *g = Some(RefServer { req_w: req[1], resp_r: resp[0], pid });
}

pub fn stop_reference_server() {
    let mut g = REF.lock().unwrap();
    if let Some(s) = g.take() {
        unsafe {
            libc::close(s.req_w);
            libc::close(s.resp_r);
        }
        wait(s.pid);
    }
}

/// One-shot library call in a brand-new process (falls back to the in-process
/// call when no reference server is running, e.g. in `sim gen --run`).
pub fn fresh_lib_call(r: &RefRequest) -> Result<String, String> {
    let g = REF.lock().unwrap();
    match g.as_ref() {
        None => crate::common::lib_call(&r.text, &r.doc, &r.offset, r.now, &r.targets, r.mode, r.json),
        Some(s) => {
            let bytes = serde_json::to_vec(r).map_err(|e| e.to_string())?;
            if !write_frame(s.req_w, &bytes) {
                return Err("reference server unreachable".into());
            }
            match read_frame(s.resp_r) {
                Some(f) => serde_json::from_slice::<Result<String, String>>(&f).map_err(|e| e.to_string())?,
                None => Err("reference server closed".into()),
            }
        }
    }
}
