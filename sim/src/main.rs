#![allow(unused_imports, dead_code)]
//! Deterministic simulation harness for piyoppi/chiritori (see /verif/DESIGN.md).

mod c05;
mod c19;
mod c20;
mod cli;
mod common;
mod doc;
mod driver;
mod iso;
mod reftime;
mod rng;
mod scen;
mod selftest;
mod world;

use std::path::PathBuf;

fn arg<'a>(args: &'a [String], name: &str) -> Option<&'a str> {
    args.iter().position(|a| a == name).and_then(|i| args.get(i + 1)).map(|s| s.as_str())
}
fn flag(args: &[String], name: &str) -> bool {
    args.iter().any(|a| a == name)
}

fn env_seed() -> u64 {
    match std::env::var("VERIF_SEED") {
        Ok(s) if !s.trim().is_empty() => match s.trim().parse::<u64>() {
            Ok(v) => v,
            Err(_) => {
                // any string is accepted: hash it
                common::hash_str(s.trim())
            }
        },
        _ => driver::DEFAULT_SEED,
    }
}

fn absolute(p: PathBuf) -> PathBuf {
    if p.is_absolute() {
        p
    } else {
        std::env::current_dir().map(|c| c.join(&p)).unwrap_or(p)
    }
}

fn verif_dir() -> PathBuf {
    absolute(PathBuf::from(std::env::var("VERIF_DIR").unwrap_or_else(|_| "/verif".to_string())))
}

fn main() {
    world::install_panic_hook();
    let args: Vec<String> = std::env::args().collect();
    // the process will work inside a scratch directory: make path-valued settings absolute first
    if let Ok(d) = std::env::var("VERIF_REPLAY_DIR") {
        std::env::set_var("VERIF_REPLAY_DIR", absolute(PathBuf::from(d)));
    }
    if let Ok(d) = std::env::var("VERIF_KNOWN_FILE") {
        std::env::set_var("VERIF_KNOWN_FILE", absolute(PathBuf::from(d)));
    }
    let cmd = args.get(1).map(|s| s.as_str()).unwrap_or("");
    let code = match cmd {
        "worker" => {
            let a = driver::WorkerArgs {
                prop: arg(&args, "--prop").expect("--prop").to_string(),
                seed: arg(&args, "--seed").expect("--seed").parse().expect("seed"),
                from: arg(&args, "--from").unwrap_or("0").parse().unwrap(),
                to: arg(&args, "--to").expect("--to").parse().unwrap(),
                stride: arg(&args, "--stride").unwrap_or("1").parse().unwrap(),
                offset: arg(&args, "--offset").unwrap_or("0").parse().unwrap(),
                out: absolute(PathBuf::from(arg(&args, "--out").expect("--out"))),
                dump_hashes: flag(&args, "--dump-hashes"),
            };
            driver::worker(&a);
            0
        }
        "run" => {
            let prop = arg(&args, "--prop").expect("--prop").to_string();
            if !scen::PROPS.contains(&prop.as_str()) {
                eprintln!("unknown property {}", prop);
                std::process::exit(2);
            }
            let tier = arg(&args, "--tier").map(|s| s.to_string()).or_else(|| std::env::var("VERIF_TIER").ok()).unwrap_or_else(|| "quick".into());
            let tier = if tier == "thorough" { "thorough".to_string() } else { "quick".to_string() };
            // VERIF_SCENARIOS: used by the self-tests only
            let scenarios = arg(&args, "--scenarios")
                .map(|s| s.to_string())
                .or_else(|| std::env::var("VERIF_SCENARIOS").ok())
                .map(|s| s.parse().expect("scenario count"))
                .unwrap_or_else(|| driver::tier_scenarios(&prop, &tier));
            let ncpu = std::thread::available_parallelism().map(|n| n.get() as u64).unwrap_or(4);
            let workers = arg(&args, "--workers").map(|s| s.parse().expect("--workers")).unwrap_or(ncpu.min(16)).max(1);
            let a = driver::RunArgs {
                prop,
                tier,
                seed: arg(&args, "--seed").map(|s| s.parse().expect("--seed")).unwrap_or_else(env_seed),
                scenarios,
                workers,
                verif_dir: verif_dir(),
                write_evidence: !flag(&args, "--no-evidence") && std::env::var("VERIF_NO_EVIDENCE").is_err(),
                dump_hashes: false,
            };
            driver::check(&a)
        }
        "replay" => match args.get(2) {
            Some(p) => driver::replay(&absolute(PathBuf::from(p))),
            None => {
                eprintln!("usage: sim replay <file>");
                2
            }
        },
        "gen" => {
            let prop = arg(&args, "--prop").expect("--prop");
            let seed = arg(&args, "--seed").map(|s| s.parse().unwrap()).unwrap_or_else(env_seed);
            let index: u64 = arg(&args, "--index").unwrap_or("0").parse().unwrap();
            let scn = scen::generate(prop, seed, index);
            if flag(&args, "--source") {
                println!("{}", scn.rendered_source());
            } else {
                println!("{}", serde_json::to_string_pretty(&scn).unwrap());
            }
            if flag(&args, "--run") {
                let (v, st) = driver::run_once(&scn, true);
                for l in &st.transcript {
                    println!("{}", l);
                }
                println!("violation: {:?}", v);
            }
            0
        }
        "bench" => {
            // rough cost breakdown: scenarios executed in this process (no fork) vs isolated
            let prop = arg(&args, "--prop").expect("--prop");
            let n: u64 = arg(&args, "--n").unwrap_or("500").parse().unwrap();
            let iso = flag(&args, "--iso");
            let t = std::time::Instant::now();
            let mut execs = 0;
            for i in 0..n {
                let scn = scen::generate(prop, 1, i);
                let (_, st) = if iso { driver::run_once(&scn, false) } else { driver::run_here(&scn, false) };
                execs += st.execs;
            }
            let el = t.elapsed();
            println!("{} scenarios, {} executions, {:?} total, {:?}/scenario, {:?}/execution", n, execs, el, el / n as u32, el / execs.max(1) as u32);
            0
        }
        "hash-order" => {
            // probe for the randomness seam: iteration order of a HashMap on fresh threads
            world::random_begin_scenario();
            for round in 0..3 {
                let h = std::thread::spawn(|| {
                    let m: std::collections::HashMap<&str, i32> = [("a", 1), ("b", 2), ("c", 3), ("d", 4), ("e", 5)].into_iter().collect();
                    m.keys().cloned().collect::<Vec<_>>().join("")
                });
                println!("round {}: {}", round, h.join().unwrap());
            }
            0
        }
        "parse-time" => {
            for a in &args[2..] {
                println!("{:?} -> {:?}", a, a.parse::<chrono::DateTime<chrono::Local>>().map(|d| d.with_timezone(&chrono::Utc).to_rfc3339()));
            }
            0
        }
        "selftest" => selftest::main(&args[2..], &verif_dir(), env_seed()),
        _ => {
            eprintln!("usage: sim run|worker|replay|gen|selftest ...");
            2
        }
    };
    world::sandbox_leave();
    std::process::exit(code);
}
