mod cli;
mod world;

use world::*;

fn main() {
    install_panic_hook();
    let mut fs = Fs::new();
    fs.insert("a.txt".into(), b"x\n<!-- <time-limited to=\"2024-01-01 00:00:00\"> -->\nfoo\n<!-- </time-limited> -->\ny\n".to_vec());
    for sec in [1704067199i64, 1704067200] {
        let ex = Exec {
            argv: vec!["chiritori".into(), "--filename".into(), "a.txt".into()],
            clock: ClockSpec { sec, nsec: 0, tick_ns: 0 },
            io: IoPlan { seed: 7, short_read: true, short_write: true, eintr_read: true, eintr_write: true, max_chunk: 7, ..Default::default() },
            ..Default::default()
        };
        let out = execute(&mut fs, &ex, cli::run);
        println!("{:?} stdout={:?} stderr={:?}", out.status, String::from_utf8_lossy(&out.stdout), String::from_utf8_lossy(&out.stderr));
        println!("{:?} {:?}", out.counters, out.clock);
    }
}
