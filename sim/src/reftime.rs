//! Reference model of the expiry decision, written without chrono:
//! days-from-civil arithmetic and a strict grammar for the canonical spellings.

pub fn is_leap(y: i64) -> bool {
    (y % 4 == 0 && y % 100 != 0) || y % 400 == 0
}

pub fn days_in_month(y: i64, m: i64) -> i64 {
    match m {
        1 | 3 | 5 | 7 | 8 | 10 | 12 => 31,
        4 | 6 | 9 | 11 => 30,
        2 => {
            if is_leap(y) {
                29
            } else {
                28
            }
        }
        _ => 0,
    }
}

/// Days since 1970-01-01 of the proleptic Gregorian date (Howard Hinnant's algorithm).
pub fn days_from_civil(y: i64, m: i64, d: i64) -> i64 {
    let y = if m <= 2 { y - 1 } else { y };
    let era = y.div_euclid(400);
    let yoe = y - era * 400;
    let mp = (m + 9) % 12;
    let doy = (153 * mp + 2) / 5 + d - 1;
    let doe = yoe * 365 + yoe / 4 - yoe / 100 + doy;
    era * 146097 + doe - 719468
}

pub fn civil_from_days(z: i64) -> (i64, i64, i64) {
    let z = z + 719468;
    let era = z.div_euclid(146097);
    let doe = z - era * 146097;
    let yoe = (doe - doe / 1460 + doe / 36524 - doe / 146096) / 365;
    let y = yoe + era * 400;
    let doy = doe - (365 * yoe + yoe / 4 - yoe / 100);
    let mp = (5 * doy + 2) / 153;
    let d = doy - (153 * mp + 2) / 5 + 1;
    let m = if mp < 10 { mp + 3 } else { mp - 9 };
    (if m <= 2 { y + 1 } else { y }, m, d)
}

fn num(b: &[u8]) -> Option<i64> {
    let mut v = 0i64;
    for &c in b {
        if !c.is_ascii_digit() {
            return None;
        }
        v = v * 10 + (c - b'0') as i64;
    }
    Some(v)
}

/// `YYYY-MM-DD HH:MM:SS`, exactly; returns the wall-clock reading as seconds
/// since 1970-01-01 00:00:00 *of that wall clock*.
pub fn parse_to_canonical(s: &str) -> Option<i64> {
    let b = s.as_bytes();
    if b.len() != 19 || b[4] != b'-' || b[7] != b'-' || b[10] != b' ' || b[13] != b':' || b[16] != b':' {
        return None;
    }
    let (y, mo, d) = (num(&b[0..4])?, num(&b[5..7])?, num(&b[8..10])?);
    let (h, mi, se) = (num(&b[11..13])?, num(&b[14..16])?, num(&b[17..19])?);
    if !(1..=12).contains(&mo) || d < 1 || d > days_in_month(y, mo) || h > 23 || mi > 59 || se > 59 {
        return None;
    }
    Some(days_from_civil(y, mo, d) * 86400 + h * 3600 + mi * 60 + se)
}

/// `+HH:MM` / `-HH:MM` / `+HHMM` / `-HHMM`, |offset| < 24h; seconds east of UTC.
pub fn parse_offset_canonical(s: &str) -> Option<i64> {
    let b = s.as_bytes();
    let (sign, rest) = match b.first()? {
        b'+' => (1, &b[1..]),
        b'-' => (-1, &b[1..]),
        _ => return None,
    };
    let (h, m) = match rest.len() {
        4 => (num(&rest[0..2])?, num(&rest[2..4])?),
        5 if rest[2] == b':' => (num(&rest[0..2])?, num(&rest[3..5])?),
        _ => return None,
    };
    if h > 23 || m > 59 {
        return None;
    }
    Some(sign * (h * 3600 + m * 60))
}

pub fn format_wall(secs: i64) -> String {
    let days = secs.div_euclid(86400);
    let rem = secs.rem_euclid(86400);
    let (y, m, d) = civil_from_days(days);
    format!("{:04}-{:02}-{:02} {:02}:{:02}:{:02}", y, m, d, rem / 3600, rem % 3600 / 60, rem % 60)
}

pub fn format_offset(off: i64, colon: bool) -> String {
    let sign = if off < 0 { '-' } else { '+' };
    let a = off.abs();
    if colon {
        format!("{}{:02}:{:02}", sign, a / 3600, a % 3600 / 60)
    } else {
        format!("{}{:02}{:02}", sign, a / 3600, a % 3600 / 60)
    }
}

/// Strict RFC 3339 rendering of instant (sec, nsec) in the zone `off` seconds
/// east of UTC.  `frac`: 0 = no fraction (nsec must be 0), else 9 digits.
pub fn format_rfc3339(sec: i64, nsec: i64, off: i64, zulu_if_utc: bool) -> String {
    let wall = format_wall(sec + off);
    let (date, time) = wall.split_at(10);
    let frac = if nsec == 0 { String::new() } else { format!(".{:09}", nsec) };
    let zone = if off == 0 && zulu_if_utc { "Z".to_string() } else { format_offset(off, true) };
    format!("{}T{}{}{}", date, &time[1..], frac, zone)
}

/// RFC 3339 with the relaxations the shipped CLI accepts (chrono's documented "relaxed RFC 3339"):
/// bit 0: a space instead of `T`; bit 1: a space before the zone; bit 2: numeric zone without colon.
pub fn format_time_spelled(sec: i64, nsec: i64, off: i64, zulu_if_utc: bool, spelling: u8) -> String {
    let wall = format_wall(sec + off);
    let (date, time) = wall.split_at(10);
    let frac = if nsec == 0 { String::new() } else { format!(".{:09}", nsec) };
    let zone = if off == 0 && zulu_if_utc { "Z".to_string() } else { format_offset(off, spelling & 4 == 0) };
    let sep = if spelling & 1 != 0 { " " } else { "T" };
    let gap = if spelling & 2 != 0 { " " } else { "" };
    format!("{}{}{}{}{}{}", date, sep, &time[1..], frac, gap, zone)
}

/// Can instant `sec` be written with a four-digit year in the zone `off`?
pub fn fits_rfc3339(sec: i64, off: i64) -> bool {
    let w = sec + off;
    w >= -62_135_596_800 + 86_400 * 366 && w < 253_402_300_800
}

/// The reference decision.  `None` = this reference has no opinion (a spelling
/// outside the canonical grammar that is not in an enumerated malformed class).
pub fn instant_of(to: &str, offset: &str) -> Option<i64> {
    Some(parse_to_canonical(to)? - parse_offset_canonical(offset)?)
}

pub fn ready_at(expiry_instant: i64, now: (i64, i64)) -> bool {
    // now >= expiry  (expiry has no sub-second part)
    now.0 >= expiry_instant
}

#[cfg(test)]
mod tests {
    use super::*;
    #[test]
    fn civil_roundtrip() {
        for z in (-800000..3000000).step_by(97) {
            let (y, m, d) = civil_from_days(z);
            assert_eq!(days_from_civil(y, m, d), z);
        }
        assert_eq!(days_from_civil(1970, 1, 1), 0);
        assert_eq!(days_from_civil(2024, 1, 1), 19723);
        assert_eq!(parse_to_canonical("2024-01-01 00:00:00"), Some(1704067200));
        assert_eq!(parse_to_canonical("2023-02-29 00:00:00"), None);
        assert_eq!(parse_offset_canonical("+09:00"), Some(32400));
        assert_eq!(parse_offset_canonical("-0330"), Some(-12600));
        assert_eq!(format_rfc3339(1704067200, 1, 32400, true), "2024-01-01T09:00:00.000000001+09:00");
        assert_eq!(format_rfc3339(1704067200, 0, 0, true), "2024-01-01T00:00:00Z");
    }
}
