//! The only source of randomness in the harness.  Generation consumes it;
//! execution of a generated Scenario never does.

#[derive(Clone, Debug)]
pub struct Rng(pub u64);

pub fn mix(mut z: u64) -> u64 {
    z = z.wrapping_add(0x9E3779B97F4A7C15);
    z = (z ^ (z >> 30)).wrapping_mul(0xBF58476D1CE4E5B9);
    z = (z ^ (z >> 27)).wrapping_mul(0x94D049BB133111EB);
    z ^ (z >> 31)
}

/// Sub-seed for scenario `index` of property stream `stream` under `seed`.
pub fn subseed(seed: u64, stream: u64, index: u64) -> u64 {
    mix(mix(seed ^ 0x5EED_0000_0000_0000).wrapping_add(mix(stream.wrapping_mul(0x100000001B3))) ^ mix(index))
}

impl Rng {
    pub fn new(seed: u64) -> Self {
        Rng(mix(seed))
    }
    pub fn next(&mut self) -> u64 {
        self.0 = self.0.wrapping_add(0x9E3779B97F4A7C15);
        let mut z = self.0;
        z = (z ^ (z >> 30)).wrapping_mul(0xBF58476D1CE4E5B9);
        z = (z ^ (z >> 27)).wrapping_mul(0x94D049BB133111EB);
        z ^ (z >> 31)
    }
    /// uniform in 0..n (n > 0)
    pub fn below(&mut self, n: u64) -> u64 {
        debug_assert!(n > 0);
        self.next() % n
    }
    pub fn usize(&mut self, n: usize) -> usize {
        self.below(n as u64) as usize
    }
    /// inclusive range
    pub fn range(&mut self, lo: i64, hi: i64) -> i64 {
        lo + self.below((hi - lo + 1) as u64) as i64
    }
    /// true with probability num/den
    pub fn chance(&mut self, num: u64, den: u64) -> bool {
        self.below(den) < num
    }
    pub fn pick<'a, T>(&mut self, xs: &'a [T]) -> &'a T {
        &xs[self.usize(xs.len())]
    }
    pub fn nonzero(&mut self) -> u64 {
        loop {
            let v = self.next();
            if v != 0 {
                return v;
            }
        }
    }
}
