//! A Scenario is a fully explicit, replayable value: executing it is a pure
//! function of the Scenario and the code under test.

use crate::common::{RunStats, Violation};
use serde::{Deserialize, Serialize};

#[derive(Clone, Debug, Serialize, Deserialize, PartialEq)]
pub enum Scenario {
    C05(crate::c05::C05Scn),
    C19(crate::c19::C19Scn),
    C20(crate::c20::C20Scn),
}

pub const PROPS: &[&str] = &["C05", "C19", "C20"];

pub fn stream_of(prop: &str) -> u64 {
    match prop {
        "C05" => 5,
        "C19" => 19,
        "C20" => 20,
        _ => panic!("unknown property {}", prop),
    }
}

pub fn generate(prop: &str, seed: u64, index: u64) -> Scenario {
    let s = crate::rng::subseed(seed, stream_of(prop), index);
    match prop {
        "C05" => Scenario::C05(crate::c05::generate(s)),
        "C19" => Scenario::C19(crate::c19::generate(s)),
        "C20" => Scenario::C20(crate::c20::generate(s)),
        _ => panic!("unknown property {}", prop),
    }
}

impl Scenario {
    pub fn prop(&self) -> &'static str {
        match self {
            Scenario::C05(_) => "C05",
            Scenario::C19(_) => "C19",
            Scenario::C20(_) => "C20",
        }
    }
    /// Does this scenario ask for one-shot references computed in a brand-new process?
    pub fn needs_fresh_reference(&self) -> bool {
        matches!(self, Scenario::C19(_))
    }
    pub fn run(&self, stats: &mut RunStats) -> Option<Violation> {
        match self {
            Scenario::C05(s) => crate::c05::run(s, stats),
            Scenario::C19(s) => crate::c19::run(s, stats),
            Scenario::C20(s) => crate::c20::run(s, stats),
        }
    }
    pub fn shrink_candidates(&self) -> Vec<Scenario> {
        match self {
            Scenario::C05(s) => crate::c05::shrink_candidates(s).into_iter().map(Scenario::C05).collect(),
            Scenario::C19(s) => crate::c19::shrink_candidates(s).into_iter().map(Scenario::C19).collect(),
            Scenario::C20(s) => crate::c20::shrink_candidates(s).into_iter().map(Scenario::C20).collect(),
        }
    }
    pub fn rendered_source(&self) -> String {
        match self {
            Scenario::C05(s) => s.doc.render(),
            Scenario::C19(s) => s.doc.render(),
            Scenario::C20(s) => s.doc.render(),
        }
    }
    /// Short human-readable summary for the evidence file.
    pub fn sample(&self) -> serde_json::Value {
        match self {
            Scenario::C05(s) => crate::c05::sample(s),
            Scenario::C19(s) => crate::c19::sample(s),
            Scenario::C20(s) => crate::c20::sample(s),
        }
    }
}
