//! Self-tests of the harness itself: determinism of the simulation, fidelity of
//! the facades against the real binary, silence over many seeds.  A failure
//! here is a harness error (exit 2), never a verdict on a property.

use crate::c20;
use crate::common::{lib_call, RunStats};
use crate::driver::{self, RunArgs};
use crate::scen::{self, Scenario};
use crate::world::{execute, StdinSpec};
use std::collections::BTreeMap;
use std::io::Write;
use std::path::{Path, PathBuf};
use std::process::{Command, Stdio};

fn arg<'a>(args: &'a [String], name: &str) -> Option<&'a str> {
    args.iter().position(|a| a == name).and_then(|i| args.get(i + 1)).map(|s| s.as_str())
}

pub fn main(args: &[String], verif: &Path, seed: u64) -> i32 {
    match args.first().map(|s| s.as_str()) {
        Some("determinism") => determinism(args, verif, seed),
        Some("fidelity") => fidelity(args, verif, seed),
        Some("seeds") => seeds(args, verif),
        _ => {
            eprintln!("usage: sim selftest determinism|fidelity|seeds [...]");
            2
        }
    }
}

/// Every scenario index is executed several times, in different processes and
/// under different worker counts (so that the same index is computed by
/// different workers after different predecessors); the hash of its complete
/// event log, delivered bytes and verdict must be identical every time.
fn determinism(args: &[String], verif: &Path, seed: u64) -> i32 {
    let n: u64 = arg(args, "--scenarios").map(|s| s.parse().unwrap()).unwrap_or(2_000);
    let mut total = 0u64;
    for prop in scen::PROPS {
        let mut reference: Option<BTreeMap<u64, u64>> = None;
        for (round, workers) in [16u64, 16, 4, 1, 7].iter().enumerate() {
            let a = RunArgs {
                prop: prop.to_string(),
                tier: "quick".into(),
                seed,
                scenarios: n,
                workers: *workers,
                verif_dir: verif.to_path_buf(),
                write_evidence: false,
                dump_hashes: true,
            };
            let agg = match driver::spawn_workers(&a, &format!("det{}", round)) {
                Ok(x) => x,
                Err(e) => {
                    eprintln!("selftest determinism: harness error: {}", e);
                    return 2;
                }
            };
            if agg.log_hashes.len() as u64 != n {
                eprintln!("selftest determinism: expected {} hashes, got {}", n, agg.log_hashes.len());
                return 2;
            }
            match &reference {
                None => reference = Some(agg.log_hashes),
                Some(r) => {
                    let diff: Vec<u64> = r.iter().filter(|(k, v)| agg.log_hashes.get(k) != Some(v)).map(|(k, _)| *k).collect();
                    if !diff.is_empty() {
                        eprintln!(
                            "selftest determinism: property {} round {} (workers={}): {} scenario(s) produced a different event log, first indices {:?}",
                            prop,
                            round,
                            workers,
                            diff.len(),
                            &diff[..diff.len().min(10)]
                        );
                        return 2;
                    }
                }
            }
            total += n;
        }
        println!("determinism: property {}: {} scenarios x 5 rounds (workers 16,16,4,1,7) identical event-log hashes", prop, n);
    }
    println!("determinism OK: {} scenario executions compared, seed {}", total, seed);
    0
}

/// The three quick checks stay silent under many different seeds.
fn seeds(args: &[String], verif: &Path) -> i32 {
    let n: u64 = arg(args, "--n").map(|s| s.parse().unwrap()).unwrap_or(50);
    let scenarios: Option<u64> = arg(args, "--scenarios").map(|s| s.parse().unwrap());
    for s in 1..=n {
        for prop in scen::PROPS {
            let a = RunArgs {
                prop: prop.to_string(),
                tier: "quick".into(),
                seed: s * 7919 + 13,
                scenarios: scenarios.unwrap_or_else(|| driver::tier_scenarios(prop, "quick")),
                workers: 16,
                verif_dir: verif.to_path_buf(),
                write_evidence: false,
                dump_hashes: false,
            };
            let agg = match driver::spawn_workers(&a, "seeds") {
                Ok(x) => x,
                Err(e) => {
                    eprintln!("selftest seeds: harness error: {}", e);
                    return 2;
                }
            };
            if agg.out.violations_total > 0 {
                eprintln!("selftest seeds: property {} seed {} reports {} violating scenario(s): {:?}", prop, a.seed, agg.out.violations_total, &agg.out.violations[..agg.out.violations.len().min(3)]);
                return 1;
            }
        }
    }
    println!("seeds OK: {} seeds x {} properties silent", n, scen::PROPS.len());
    0
}

/// Fault-free C20 variants with an explicit current time are also executed by
/// the real binary on a real scratch directory with real pipes; stdout, output
/// file and exit status must equal the simulated execution.
fn fidelity(args: &[String], verif: &Path, seed: u64) -> i32 {
    let bin = match arg(args, "--bin") {
        Some(b) => PathBuf::from(b),
        None => {
            eprintln!("selftest fidelity: --bin <path to the real chiritori binary> required");
            return 2;
        }
    };
    let n: u64 = arg(args, "--n").map(|s| s.parse().unwrap()).unwrap_or(600);
    crate::world::sandbox_enter();
    // optional LD_PRELOAD shim that lets the real binary read a chosen wall clock
    let shim: Option<PathBuf> = arg(args, "--clock-shim").map(PathBuf::from);
    let mut compared_clock = 0u64;
    let root = verif.join("work").join(format!("fidelity-{}", std::process::id()));
    let _ = std::fs::remove_dir_all(&root);
    let mut compared = 0u64;
    let mut skipped = 0u64;
    let mut index = 0u64;
    while compared < n && index < n * 20 {
        let scn = match scen::generate("C20", seed ^ 0xF1DE, index) {
            Scenario::C20(s) => s,
            _ => unreachable!(),
        };
        index += 1;
        let text = scn.doc.render();
        for (k, v) in scn.variants.iter().enumerate() {
            let reads_clock = !matches!(v.time, c20::TimeSource::Explicit { .. });
            if reads_clock && shim.is_none() {
                skipped += 1;
                continue; // the real clock cannot be set without the shim
            }
            let (mut fs, mut ex, out_path) = c20::build_exec(&scn, v, &text);
            ex.io = Default::default(); // fault-free
            ex.stdout_tty = false; // the real run writes to a pipe
            let before = fs.clone();
            let sim = execute(&mut fs, &ex, crate::cli::run);
            // --- real execution ---
            let dir = root.join(format!("{}-{}", index, k));
            std::fs::create_dir_all(&dir).unwrap();
            for (p, c) in &before {
                let fp = dir.join(p);
                if let Some(parent) = fp.parent() {
                    std::fs::create_dir_all(parent).unwrap();
                }
                std::fs::write(&fp, c).unwrap();
            }
            let mut cmd = Command::new(&bin);
            cmd.args(&ex.argv[1..]).current_dir(&dir).stdout(Stdio::piped()).stderr(Stdio::piped());
            cmd.env_remove("TZ").env_remove("LANG").env_remove("LC_ALL").env_remove("LC_TIME").env_remove("RUST_BACKTRACE");
            for (k, v) in &ex.env {
                cmd.env(k, v);
            }
            if let Some(sh) = &shim {
                // both kinds of execution run under the shim: explicit-time runs see the decoy clock
                cmd.env("LD_PRELOAD", sh);
                cmd.env("VERIF_FAKE_CLOCK", format!("{}.{:09}", ex.clock.sec, ex.clock.nsec));
            }
            if reads_clock {
                compared_clock += 1;
            }
            let stdin_bytes: Option<Vec<u8>> = match &ex.stdin {
                StdinSpec::Pipe(s) => Some(s.clone().into_bytes()),
                StdinSpec::PipeBytes(b) => Some(b.clone()),
                StdinSpec::Tty => None,
            };
            if stdin_bytes.is_some() {
                cmd.stdin(Stdio::piped());
            } else {
                cmd.stdin(Stdio::null());
            }
            let mut child = match cmd.spawn() {
                Ok(c) => c,
                Err(e) => {
                    eprintln!("selftest fidelity: cannot run {:?}: {}", bin, e);
                    return 2;
                }
            };
            if let Some(b) = stdin_bytes {
                let mut si = child.stdin.take().unwrap();
                // a real pipe, written in small pieces
                for chunk in b.chunks(5) {
                    let _ = si.write_all(chunk);
                }
                drop(si);
            }
            let real = child.wait_with_output().unwrap();
            let real_code = real.status.code().unwrap_or(-1);
            let mut problems = Vec::new();
            if real_code != sim.exit_code() {
                problems.push(format!("exit status real={} sim={}", real_code, sim.exit_code()));
            }
            if real.stdout != sim.stdout {
                problems.push(format!("stdout real={:?} sim={:?}", String::from_utf8_lossy(&real.stdout), String::from_utf8_lossy(&sim.stdout)));
            }
            if real_code == 0 && !real.stderr.is_empty() {
                problems.push(format!("real stderr {:?}", String::from_utf8_lossy(&real.stderr)));
            }
            // every file of the simulated fs must equal the real one, and vice versa
            for (p, c) in &fs {
                if crate::world::is_meta_key(p) {
                    continue;
                }
                match std::fs::read(dir.join(p)) {
                    Ok(rc) if rc == *c => {}
                    Ok(rc) => problems.push(format!("file {:?} real={:?} sim={:?}", p, String::from_utf8_lossy(&rc), String::from_utf8_lossy(c))),
                    Err(_) => problems.push(format!("file {:?} missing in the real directory", p)),
                }
            }
            let mut real_files = Vec::new();
            collect_files(&dir, &dir, &mut real_files);
            for p in real_files {
                if !fs.contains_key(&p) {
                    problems.push(format!("real run created {:?} which the simulation did not", p));
                }
            }
            if !problems.is_empty() {
                eprintln!("selftest fidelity: the simulated execution differs from the real binary (harness error, not a verdict)");
                eprintln!("  argv {:?} env {:?} output_path {:?}", ex.argv, ex.env, out_path);
                for p in problems {
                    eprintln!("  {}", p);
                }
                eprintln!("  scratch dir kept: {}", dir.display());
                return 2;
            }
            let _ = std::fs::remove_dir_all(&dir);
            compared += 1;
        }
    }
    let _ = std::fs::remove_dir_all(&root);
    // the direct library call is what C19/C20 use as reference: make sure it is callable here too
    let _ = lib_call("", &scen_doc(), "+00:00", (0, 0), &Default::default(), crate::common::Mode::Clean, false);
    let _ = RunStats::new(false);
    println!(
        "fidelity OK: {} executions compared with the real binary {} ({} of them read the wall clock through the LD_PRELOAD shim; {} clock-reading variants skipped)",
        compared,
        bin.display(),
        compared_clock,
        skipped
    );
    0
}

fn scen_doc() -> crate::doc::Doc {
    crate::doc::Doc {
        ds: crate::doc::DEFAULT_DS.into(),
        de: crate::doc::DEFAULT_DE.into(),
        tl_tag: crate::doc::DEFAULT_TL.into(),
        rm_tag: crate::doc::DEFAULT_RM.into(),
        nodes: vec![],
        final_newline: true,
        pad: None,
        crlf: false,
        bom: false,
        exact_size: None,
    }
}

fn collect_files(root: &Path, dir: &Path, out: &mut Vec<String>) {
    if let Ok(rd) = std::fs::read_dir(dir) {
        for e in rd.flatten() {
            let p = e.path();
            if p.is_dir() {
                collect_files(root, &p, out);
            } else if let Ok(rel) = p.strip_prefix(root) {
                out.push(rel.to_string_lossy().into_owned());
            }
        }
    }
}
