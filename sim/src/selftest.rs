//! Self-tests of the harness itself (determinism, fidelity).

use std::path::Path;

pub fn main(_args: &[String], _verif: &Path, _seed: u64) -> i32 {
    eprintln!("selftest: not implemented yet");
    2
}
