//! The simulated process environment: file system, standard streams, argv,
//! environment, clock, fault plan and event log.  Everything `main.rs` can
//! observe goes through here (see `simstd`, `simatty`, `simclap`).

use serde::{Deserialize, Serialize};
use std::collections::BTreeMap;
use std::io;
use std::sync::atomic::{AtomicBool, AtomicI64, AtomicU64, Ordering};
use std::sync::Mutex;

// ---------------------------------------------------------------------------
// Clock seam: the harness binary's own `clock_gettime` is what statically
// linked std (and therefore chrono) binds to.
// ---------------------------------------------------------------------------

static CLOCK_ACTIVE: AtomicBool = AtomicBool::new(false);
static CLOCK_SEC: AtomicI64 = AtomicI64::new(0);
static CLOCK_NSEC: AtomicI64 = AtomicI64::new(0);
/// nanoseconds added to the simulated clock after every reading
static CLOCK_TICK: AtomicI64 = AtomicI64::new(0);
static CLOCK_READS: AtomicU64 = AtomicU64::new(0);
static CLOCK_FIRST: Mutex<Option<(i64, i64)>> = Mutex::new(None);

#[no_mangle]
pub unsafe extern "C" fn clock_gettime(clk: libc::clockid_t, ts: *mut libc::timespec) -> libc::c_int {
    if clk == libc::CLOCK_REALTIME && CLOCK_ACTIVE.load(Ordering::SeqCst) {
        let sec = CLOCK_SEC.load(Ordering::SeqCst);
        let nsec = CLOCK_NSEC.load(Ordering::SeqCst);
        (*ts).tv_sec = sec as libc::time_t;
        (*ts).tv_nsec = nsec as libc::c_long;
        let n = CLOCK_READS.fetch_add(1, Ordering::SeqCst);
        if n == 0 {
            if let Ok(mut g) = CLOCK_FIRST.try_lock() {
                *g = Some((sec, nsec));
            }
        }
        let tick = CLOCK_TICK.load(Ordering::SeqCst);
        if tick != 0 {
            let total = nsec + tick;
            CLOCK_SEC.store(sec + total.div_euclid(1_000_000_000), Ordering::SeqCst);
            CLOCK_NSEC.store(total.rem_euclid(1_000_000_000), Ordering::SeqCst);
        }
        return 0;
    }
    libc::syscall(libc::SYS_clock_gettime, clk as libc::c_long, ts) as libc::c_int
}

// ---------------------------------------------------------------------------
// Randomness seam: std draws the keys of every `HashMap`'s `RandomState` (once per thread)
// from `getrandom`, through a weak symbol that exists precisely so that it can be interposed.
// While a scenario runs, the bytes come from a stream that is a pure function of how many
// simulated executions the scenario process has started: the iteration order of hash maps in
// the code under test is then as replayable as everything else, while two executions of one
// scenario still get different keys (as two real processes would).
// ---------------------------------------------------------------------------

static RAND_ACTIVE: AtomicBool = AtomicBool::new(false);
static RAND_STATE: AtomicU64 = AtomicU64::new(0);
static RAND_EXECS: AtomicU64 = AtomicU64::new(0);

#[no_mangle]
pub unsafe extern "C" fn getrandom(buf: *mut libc::c_void, len: libc::size_t, flags: libc::c_uint) -> libc::ssize_t {
    if RAND_ACTIVE.load(Ordering::SeqCst) {
        let out = std::slice::from_raw_parts_mut(buf as *mut u8, len);
        for chunk in out.chunks_mut(8) {
            let mut x = RAND_STATE.fetch_add(0x9E3779B97F4A7C15, Ordering::SeqCst).wrapping_add(0x9E3779B97F4A7C15);
            x = (x ^ (x >> 30)).wrapping_mul(0xBF58476D1CE4E5B9);
            x = (x ^ (x >> 27)).wrapping_mul(0x94D049BB133111EB);
            x ^= x >> 31;
            let b = x.to_le_bytes();
            chunk.copy_from_slice(&b[..chunk.len()]);
        }
        return len as libc::ssize_t;
    }
    libc::syscall(libc::SYS_getrandom, buf, len, flags) as libc::ssize_t
}

/// Starts the deterministic random stream of a scenario.
pub fn random_begin_scenario() {
    RAND_EXECS.store(0, Ordering::SeqCst);
    RAND_STATE.store(0x5EED_5EED_5EED_5EED, Ordering::SeqCst);
    RAND_ACTIVE.store(true, Ordering::SeqCst);
}

/// Every simulated execution continues the stream at a position that depends only on its
/// ordinal number within the scenario.
fn random_begin_execution() {
    let k = RAND_EXECS.fetch_add(1, Ordering::SeqCst) + 1;
    RAND_STATE.store(0x5EED_5EED_5EED_5EED ^ k.wrapping_mul(0xD6E8FEB86659FD93), Ordering::SeqCst);
}

#[derive(Clone, Debug, Default, Serialize, Deserialize, PartialEq)]
pub struct ClockSpec {
    pub sec: i64,
    pub nsec: i64,
    /// nanoseconds the clock advances after each reading (0 = frozen)
    #[serde(default)]
    pub tick_ns: i64,
}

#[derive(Clone, Debug, Default, Serialize, Deserialize)]
pub struct ClockReport {
    pub reads: u64,
    pub first: Option<(i64, i64)>,
    /// value the clock holds after the execution (== last reading + tick)
    pub last: (i64, i64),
}

pub fn clock_install(c: &ClockSpec) {
    CLOCK_SEC.store(c.sec, Ordering::SeqCst);
    CLOCK_NSEC.store(c.nsec, Ordering::SeqCst);
    CLOCK_TICK.store(c.tick_ns, Ordering::SeqCst);
    CLOCK_READS.store(0, Ordering::SeqCst);
    *CLOCK_FIRST.lock().unwrap() = None;
    CLOCK_ACTIVE.store(true, Ordering::SeqCst);
}

pub fn clock_uninstall() -> ClockReport {
    CLOCK_ACTIVE.store(false, Ordering::SeqCst);
    let sec = CLOCK_SEC.load(Ordering::SeqCst);
    let nsec = CLOCK_NSEC.load(Ordering::SeqCst);
    let tick = CLOCK_TICK.load(Ordering::SeqCst);
    let reads = CLOCK_READS.load(Ordering::SeqCst);
    // last *reading* = current - tick (if any reading happened)
    let last = if reads > 0 && tick != 0 {
        let total = nsec - tick;
        (sec + total.div_euclid(1_000_000_000), total.rem_euclid(1_000_000_000))
    } else {
        (sec, nsec)
    };
    ClockReport { reads, first: *CLOCK_FIRST.lock().unwrap(), last }
}

// ---------------------------------------------------------------------------
// Fault plan
// ---------------------------------------------------------------------------

/// Per-execution I/O schedule.  `seed == 0` means full-size transfers and no
/// soft faults; everything else is derived from `seed` by a private PRNG so an
/// execution is a pure function of the plan.
#[derive(Clone, Debug, Default, Serialize, Deserialize, PartialEq)]
pub struct IoPlan {
    #[serde(default)]
    pub seed: u64,
    #[serde(default)]
    pub short_read: bool,
    #[serde(default)]
    pub eintr_read: bool,
    #[serde(default)]
    pub short_write: bool,
    #[serde(default)]
    pub eintr_write: bool,
    /// upper bound on a transfer when short_* is on
    #[serde(default)]
    pub max_chunk: usize,
    /// hard faults (non-gating probes)
    #[serde(default)]
    pub hard: Option<HardFault>,
    /// crash point (process death)
    #[serde(default)]
    pub crash: Option<CrashAt>,
}

#[derive(Clone, Debug, Serialize, Deserialize, PartialEq)]
pub enum HardFault {
    /// n-th read call (0-based, counted over all reads) fails with EIO
    EioRead(u32),
    /// n-th write call fails with ENOSPC
    EnospcWrite(u32),
    /// writes to stdout fail with EPIPE from the n-th on
    EpipeStdout(u32),
    /// opening this path fails with EACCES
    Eacces(String),
}

#[derive(Clone, Debug, Serialize, Deserialize, PartialEq)]
pub enum CrashAt {
    /// the process dies when it is about to open a file for writing
    BeforeOpenWrite,
    /// the process dies right after a write-open truncated/created the file
    AfterOpenWrite,
    /// the process dies once this many bytes have been written to files
    AfterFileBytes(usize),
    /// the process dies after main returned (result durable, status lost)
    AtExit,
    /// the process dies right after its n-th mutation of the file system (0-based; creations,
    /// truncations, writes, renames, removals count) - wherever that falls in its commit protocol
    AfterFsOps(u32),
}

// ---------------------------------------------------------------------------
// World
// ---------------------------------------------------------------------------

#[derive(Clone, Debug, Serialize, Deserialize, PartialEq)]
pub enum StdinSpec {
    Tty,
    Pipe(String),
    /// raw bytes (may be invalid UTF-8)
    PipeBytes(Vec<u8>),
}

impl Default for StdinSpec {
    fn default() -> Self {
        StdinSpec::Tty
    }
}

/// The durable state: path -> content.  Modification times travel in the same map under keys
/// that no path can have (`\0mtime\0<path>`, 16 bytes: seconds and nanoseconds), so that a cloned
/// file system carries them along; use `is_meta_key` when iterating over files.
pub type Fs = BTreeMap<String, Vec<u8>>;

const MTIME_PREFIX: &str = "\0mtime\0";

pub fn is_meta_key(k: &str) -> bool {
    k.starts_with('\0')
}

#[derive(Default)]
pub struct World {
    pub fs: Fs,
    pub stdin: Vec<u8>,
    pub stdin_pos: usize,
    pub stdin_tty: bool,
    pub stdout_tty: bool,
    /// paths that behave like a FIFO / procfs file: data arrives, but metadata reports size 0
    pub sizeless: Vec<String>,
    /// simulated modification times (absent = the epoch)
    pub mtimes: BTreeMap<String, (i64, i64)>,
    pub stdout: Vec<u8>,
    pub stderr: Vec<u8>,
    pub argv: Vec<String>,
    pub plan: IoPlan,
    pub rng: u64,
    pub log: Vec<String>,
    pub counters: BTreeMap<&'static str, u64>,
    pub n_reads: u32,
    pub n_writes: u32,
    pub n_stdout_writes: u32,
    pub file_bytes_written: usize,
    pub eintr_streak: u32,
    pub log_dropped: u64,
    pub fs_ops: u32,
    pub log_hash: u64,
    pub logbuf: String,
}

pub static WORLD: Mutex<Option<World>> = Mutex::new(None);

pub struct SimExit(pub i32);
pub struct SimCrash(pub &'static str);

/// How a simulated process ends without returning from `main`.  Like the real thing, neither
/// `process::exit` nor a crash runs destructors (a `BufWriter` that was not flushed loses its
/// data): the executing thread reports the event and is parked forever instead of unwinding.
pub enum Halt {
    Exit(i32),
    Crash(&'static str),
}

pub enum ExecMsg {
    Done(::std::thread::Result<()>, Option<String>),
    Halted(Halt),
}

thread_local! {
    static HALT_TX: std::cell::RefCell<Option<std::sync::mpsc::Sender<ExecMsg>>> = const { std::cell::RefCell::new(None) };
}

pub fn halt(h: Halt) -> ! {
    let tx = HALT_TX.with(|t| t.borrow().clone());
    match tx {
        Some(tx) => {
            let _ = tx.send(ExecMsg::Halted(h));
            loop {
                ::std::thread::park();
            }
        }
        // not on an execution thread (should not happen): fall back to unwinding
        None => match h {
            Halt::Exit(c) => ::std::panic::resume_unwind(Box::new(SimExit(c))),
            Halt::Crash(w) => ::std::panic::resume_unwind(Box::new(SimCrash(w))),
        },
    }
}

fn splitmix(x: &mut u64) -> u64 {
    *x = x.wrapping_add(0x9E3779B97F4A7C15);
    let mut z = *x;
    z = (z ^ (z >> 30)).wrapping_mul(0xBF58476D1CE4E5B9);
    z = (z ^ (z >> 27)).wrapping_mul(0x94D049BB133111EB);
    z ^ (z >> 31)
}

/// Records one event of the simulated execution (formatted into a reused buffer).
macro_rules! ev {
    ($w:expr, $($arg:tt)*) => {{
        use ::std::fmt::Write as _;
        let mut buf = ::std::mem::take(&mut $w.logbuf);
        buf.clear();
        let _ = write!(buf, $($arg)*);
        $w.logbuf = buf;
        $w.commit_log();
    }};
}

/// true: executions keep their event log as text (transcripts); false: only its hash
pub static KEEP_LOG: AtomicBool = AtomicBool::new(false);

/// Event-log lines kept per execution; beyond that only a count is kept (large inputs read
/// one byte at a time would otherwise log hundreds of thousands of lines).
pub const LOG_CAP: usize = 4000;

/// current simulated wall clock, without counting as a reading of the code under test
fn clock_peek() -> (i64, i64) {
    (CLOCK_SEC.load(Ordering::SeqCst), CLOCK_NSEC.load(Ordering::SeqCst))
}

impl World {
    /// Counts one mutation of the file system; true = the crash point has been reached.
    fn fs_op(&mut self) -> bool {
        let n = self.fs_ops;
        self.fs_ops += 1;
        matches!(self.plan.crash, Some(CrashAt::AfterFsOps(k)) if k == n)
    }
    fn touch(&mut self, path: &str) {
        self.mtimes.insert(path.to_string(), clock_peek());
    }
    /// Commits the event line currently in `logbuf`: always hashed, kept as text only when a
    /// transcript was asked for (replay, `gen --run`).
    pub fn commit_log(&mut self) {
        for b in self.logbuf.as_bytes() {
            self.log_hash ^= *b as u64;
            self.log_hash = self.log_hash.wrapping_mul(0x100000001b3);
        }
        self.log_hash ^= 10;
        self.log_hash = self.log_hash.wrapping_mul(0x100000001b3);
        if KEEP_LOG.load(Ordering::Relaxed) {
            if self.log.len() < LOG_CAP {
                self.log.push(self.logbuf.clone());
            } else {
                self.log_dropped += 1;
            }
        }
    }
    fn bump(&mut self, k: &'static str) {
        *self.counters.entry(k).or_insert(0) += 1;
    }
    fn draw(&mut self, n: u64) -> u64 {
        if n == 0 {
            0
        } else {
            splitmix(&mut self.rng) % n
        }
    }
    /// Decide whether this transfer is interrupted.  At most 3 in a row so a
    /// stall always ends (legal: EINTR is transient).
    fn eintr(&mut self, enabled: bool, kind: &'static str) -> bool {
        if !enabled || self.plan.seed == 0 {
            return false;
        }
        if self.eintr_streak >= 3 {
            self.eintr_streak = 0;
            return false;
        }
        if self.draw(4) == 0 {
            self.eintr_streak += 1;
            self.bump(kind);
            true
        } else {
            self.eintr_streak = 0;
            false
        }
    }
    fn chunk(&mut self, enabled: bool, want: usize, kind: &'static str) -> usize {
        if !enabled || self.plan.seed == 0 || want <= 1 {
            return want;
        }
        let cap = self.plan.max_chunk.max(1);
        let k = 1 + self.draw(cap as u64) as usize;
        if k < want {
            self.bump(kind);
            k
        } else {
            want
        }
    }
}

pub fn with_world<R>(f: impl FnOnce(&mut World) -> R) -> R {
    let mut g = WORLD.lock().unwrap_or_else(|e| e.into_inner());
    f(g.as_mut().expect("no simulated world installed"))
}

fn crash(why: &'static str) -> ! {
    with_world(|w| {
        ev!(w, "crash {}", why);
        w.bump("crash_fired");
    });
    halt(Halt::Crash(why))
}

// ---------------------------------------------------------------------------
// std facade seen by main.rs
// ---------------------------------------------------------------------------

pub mod simstd {
    // pure parts of std: the real thing
    #[allow(unused_imports)]
    pub use ::std::{
        borrow, boxed, cell, char, clone, cmp, collections, convert, default, error, ffi, fmt, hash,
        iter, marker, mem, num, ops, option, path, rc, result, slice, str, string, sync, time, vec,
    };

    /// Just enough of `std::os::fd` to duplicate a standard descriptor into a `File`
    /// (`File::from(stdout().as_fd().try_clone_to_owned()?)`, `File::from_raw_fd(1)`).
    pub mod os {
        pub mod fd {
            pub type RawFd = i32;
            pub struct BorrowedFd(pub(crate) i32);
            pub struct OwnedFd(pub(crate) i32);
            pub trait AsFd {
                fn as_fd(&self) -> BorrowedFd;
            }
            pub trait AsRawFd {
                fn as_raw_fd(&self) -> RawFd;
            }
            pub trait FromRawFd {
                /// # Safety
                /// mirrors std's signature
                unsafe fn from_raw_fd(fd: RawFd) -> Self;
            }
            impl BorrowedFd {
                pub fn try_clone_to_owned(&self) -> ::std::io::Result<OwnedFd> {
                    Ok(OwnedFd(self.0))
                }
            }
            macro_rules! std_fd {
                ($t:ty, $n:expr) => {
                    impl AsFd for $t {
                        fn as_fd(&self) -> BorrowedFd {
                            BorrowedFd($n)
                        }
                    }
                    impl AsRawFd for $t {
                        fn as_raw_fd(&self) -> RawFd {
                            $n
                        }
                    }
                };
            }
            std_fd!(crate::world::simstd::io::Stdin, 0);
            std_fd!(crate::world::simstd::io::Stdout, 1);
            std_fd!(crate::world::simstd::io::Stderr, 2);
            impl From<OwnedFd> for crate::world::simstd::fs::File {
                fn from(fd: OwnedFd) -> Self {
                    crate::world::simstd::fs::file_from_std_fd(fd.0)
                }
            }
            impl FromRawFd for crate::world::simstd::fs::File {
                unsafe fn from_raw_fd(fd: RawFd) -> Self {
                    crate::world::simstd::fs::file_from_std_fd(fd)
                }
            }
        }
        pub mod unix {
            pub mod io {
                pub use super::super::fd::*;
            }
        }
    }

    pub mod process {
        /// Stand-in for std::process::ExitCode whose value the simulator can read.
        #[derive(Clone, Copy, Debug, PartialEq, Eq)]
        pub struct ExitCode(pub u8);
        impl ExitCode {
            pub const SUCCESS: ExitCode = ExitCode(0);
            pub const FAILURE: ExitCode = ExitCode(1);
        }
        impl From<u8> for ExitCode {
            fn from(c: u8) -> Self {
                ExitCode(c)
            }
        }
        /// What `main` may return (mirrors std::process::Termination).
        pub trait Termination {
            fn report(self) -> i32;
        }
        impl Termination for () {
            fn report(self) -> i32 {
                0
            }
        }
        impl Termination for ExitCode {
            fn report(self) -> i32 {
                self.0 as i32
            }
        }
        impl<T: Termination, E: ::std::fmt::Debug> Termination for Result<T, E> {
            fn report(self) -> i32 {
                match self {
                    Ok(v) => v.report(),
                    Err(e) => {
                        crate::world::with_world(|w| w.stderr.extend_from_slice(format!("Error: {:?}\n", e).as_bytes()));
                        1
                    }
                }
            }
        }
        /// Called by the harness with whatever the real `main` returned.
        pub fn finish_main<T: Termination>(r: T) {
            let code = r.report();
            if code != 0 {
                exit(code)
            }
        }
        pub fn exit(code: i32) -> ! {
            crate::world::with_world(|w| ev!(w, "exit {}", code));
            crate::world::halt(crate::world::Halt::Exit(code))
        }
    }

    pub mod env {
        pub use ::std::env::{var, var_os, vars, VarError};
        pub fn args() -> ::std::vec::IntoIter<String> {
            crate::world::with_world(|w| w.argv.clone()).into_iter()
        }
    }

    pub mod thread {
        pub use ::std::thread::{sleep, spawn, yield_now, JoinHandle};
    }

    pub mod fs {
        use crate::world::{crash, with_world, CrashAt, HardFault};
        use std::io;

        #[derive(Clone, Debug, Default)]
        pub struct OpenOptions {
            read: bool,
            write: bool,
            append: bool,
            truncate: bool,
            create: bool,
            create_new: bool,
        }

        impl OpenOptions {
            pub fn new() -> Self {
                Self::default()
            }
            pub fn read(&mut self, v: bool) -> &mut Self {
                self.read = v;
                self
            }
            pub fn write(&mut self, v: bool) -> &mut Self {
                self.write = v;
                self
            }
            pub fn append(&mut self, v: bool) -> &mut Self {
                self.append = v;
                self
            }
            pub fn truncate(&mut self, v: bool) -> &mut Self {
                self.truncate = v;
                self
            }
            pub fn create(&mut self, v: bool) -> &mut Self {
                self.create = v;
                self
            }
            pub fn create_new(&mut self, v: bool) -> &mut Self {
                self.create_new = v;
                self
            }
            pub fn open<P: AsRef<::std::path::Path>>(&self, path: P) -> io::Result<File> {
                let path = crate::world::norm_path(&path.as_ref().to_string_lossy());
                let writing = self.write || self.append;
                if writing {
                    let c = with_world(|w| w.plan.crash.clone());
                    if c == Some(CrashAt::BeforeOpenWrite) {
                        crash("before_open_write");
                    }
                }
                let mut die_after_op = false;
                let res: io::Result<File> = with_world(|w| {
                    if let Some(HardFault::Eacces(p)) = &w.plan.hard {
                        if *p == path {
                            w.bump("eacces_fired");
                            ev!(w, "open {} -> EACCES", path);
                            return Err(io::Error::from_raw_os_error(libc::EACCES));
                        }
                    }
                    let exists = w.fs.contains_key(&path);
                    if !writing && !self.read {
                        return Err(io::Error::from_raw_os_error(libc::EINVAL));
                    }
                    if self.create_new && exists {
                        ev!(w, "open {} -> EEXIST", path);
                        return Err(io::Error::from_raw_os_error(libc::EEXIST));
                    }
                    if !exists {
                        if writing && (self.create || self.create_new) {
                            w.fs.insert(path.clone(), Vec::new());
                            w.touch(&path);
                            crate::world::mirror_put(&path, b"");
                            ev!(w, "create {}", path);
                            die_after_op = w.fs_op();
                        } else {
                            w.bump("enoent_fired");
                            ev!(w, "open {} -> ENOENT", path);
                            return Err(io::Error::from_raw_os_error(libc::ENOENT));
                        }
                    } else if writing && self.truncate {
                        let old = w.fs.get(&path).map(|v| v.len()).unwrap_or(0);
                        w.fs.insert(path.clone(), Vec::new());
                        w.touch(&path);
                        crate::world::mirror_put(&path, b"");
                        ev!(w, "truncate {} (was {} bytes)", path, old);
                        die_after_op = w.fs_op();
                    } else {
                        ev!(w, "open {} ({})", path, if writing { "w" } else { "r" });
                    }
                    Ok(File {
                        path: path.clone(),
                        pos: 0,
                        readable: self.read,
                        writable: writing,
                        append: self.append,
                    })
                });
                if writing && res.is_ok() {
                    let c = with_world(|w| w.plan.crash.clone());
                    if c == Some(CrashAt::AfterOpenWrite) {
                        crash("after_open_write");
                    }
                }
                if die_after_op {
                    crash("after_fs_op");
                }
                res
            }
        }

        #[derive(Debug)]
        pub struct File {
            path: String,
            pos: usize,
            readable: bool,
            writable: bool,
            append: bool,
        }

        impl File {
            pub fn open<P: AsRef<::std::path::Path>>(path: P) -> io::Result<File> {
                OpenOptions::new().read(true).open(path)
            }
            pub fn create<P: AsRef<::std::path::Path>>(path: P) -> io::Result<File> {
                OpenOptions::new().write(true).create(true).truncate(true).open(path)
            }
            pub fn create_new<P: AsRef<::std::path::Path>>(path: P) -> io::Result<File> {
                OpenOptions::new().read(true).write(true).create_new(true).open(path)
            }
            pub fn options() -> OpenOptions {
                OpenOptions::new()
            }
            pub fn sync_all(&self) -> io::Result<()> {
                with_world(|w| ev!(w, "fsync {}", self.path));
                Ok(())
            }
            pub fn sync_data(&self) -> io::Result<()> {
                self.sync_all()
            }
            pub fn set_len(&self, size: u64) -> io::Result<()> {
                with_world(|w| {
                    ev!(w, "set_len {} {}", self.path, size);
                    if let Some(v) = w.fs.get_mut(&self.path) {
                        v.resize(size as usize, 0);
                    }
                });
                Ok(())
            }
            pub fn metadata(&self) -> io::Result<Metadata> {
                metadata(&self.path)
            }
        }

        /// a `File` made from a duplicated standard descriptor (see `simstd::os::fd`)
        pub(crate) fn file_from_std_fd(fd: i32) -> File {
            File { path: format!("\0fd{}", fd), pos: 0, readable: fd == 0, writable: fd != 0, append: false }
        }

        fn do_read(f: &mut File, buf: &mut [u8]) -> io::Result<usize> {
            if f.path == "\0fd0" {
                return crate::world::simstd::io::raw_stdin_read(buf);
            }
            if !f.readable {
                return Err(io::Error::from_raw_os_error(libc::EBADF));
            }
            with_world(|w| {
                let n_call = w.n_reads;
                w.n_reads += 1;
                if w.plan.hard == Some(HardFault::EioRead(n_call)) {
                    w.bump("eio_read_fired");
                    ev!(w, "read {} -> EIO", f.path);
                    return Err(io::Error::from_raw_os_error(libc::EIO));
                }
                if w.eintr(w.plan.eintr_read, "eintr_read_fired") {
                    ev!(w, "read {} -> EINTR", f.path);
                    return Err(io::Error::from(io::ErrorKind::Interrupted));
                }
                let len = w.fs.get(&f.path).map(|v| v.len()).unwrap_or(0);
                let avail = len.saturating_sub(f.pos);
                let want = avail.min(buf.len());
                let n = w.chunk(w.plan.short_read, want, "short_read_fired");
                if n > 0 {
                    let data = &w.fs[&f.path][f.pos..f.pos + n];
                    buf[..n].copy_from_slice(data);
                    // reach probe: a short read ended inside a multi-byte char
                    if n < want {
                        let all = &w.fs[&f.path];
                        let p = f.pos + n;
                        if p < all.len() && (all[p] & 0xC0) == 0x80 {
                            *w.counters.entry("probe_multibyte_split_by_short_read").or_insert(0) += 1;
                        }
                        if p < all.len() && all[p] == b'\n' && p > 0 && all[p - 1] == b'\r' {
                            *w.counters.entry("probe_crlf_split_by_short_read").or_insert(0) += 1;
                        }
                    }
                }
                ev!(w, "read {} @{} {}/{}", f.path, f.pos, n, buf.len());
                f.pos += n;
                Ok(n)
            })
        }

        fn do_write(f: &mut File, buf: &[u8]) -> io::Result<usize> {
            if f.path == "\0fd1" {
                // the descriptor under stdout, behind the back of its line buffer
                return crate::world::simstd::io::raw_stdout_write(buf);
            }
            if f.path == "\0fd2" {
                use io::Write;
                return crate::world::simstd::io::stderr().write(buf);
            }
            if !f.writable {
                return Err(io::Error::from_raw_os_error(libc::EBADF));
            }
            let r = with_world(|w| {
                let n_call = w.n_writes;
                w.n_writes += 1;
                if w.plan.hard == Some(HardFault::EnospcWrite(n_call)) {
                    w.bump("enospc_write_fired");
                    ev!(w, "write {} -> ENOSPC", f.path);
                    return Err(io::Error::from_raw_os_error(libc::ENOSPC));
                }
                if w.eintr(w.plan.eintr_write, "eintr_write_fired") {
                    ev!(w, "write {} -> EINTR", f.path);
                    return Err(io::Error::from(io::ErrorKind::Interrupted));
                }
                let mut n = w.chunk(w.plan.short_write, buf.len(), "short_write_fired");
                let mut die = false;
                if let Some(CrashAt::AfterFileBytes(limit)) = w.plan.crash {
                    let room = limit.saturating_sub(w.file_bytes_written);
                    if n >= room {
                        n = room;
                        die = true;
                    }
                }
                let file = w.fs.entry(f.path.clone()).or_default();
                if f.append {
                    f.pos = file.len();
                }
                if file.len() < f.pos {
                    file.resize(f.pos, 0);
                }
                let overlap = (file.len() - f.pos).min(n);
                file[f.pos..f.pos + overlap].copy_from_slice(&buf[..overlap]);
                file.extend_from_slice(&buf[overlap..n]);
                ev!(w, "write {} @{} {}/{}", f.path, f.pos, n, buf.len());
                f.pos += n;
                w.file_bytes_written += n;
                let p = f.path.clone();
                w.touch(&p);
                let die_op = w.fs_op();
                Ok((n, die, die_op))
            });
            match r {
                Ok((_, true, _)) => crash("mid_write"),
                Ok((_, false, true)) => crash("after_fs_op"),
                Ok((n, false, false)) => Ok(n),
                Err(e) => Err(e),
            }
        }

        impl io::Read for File {
            fn read(&mut self, buf: &mut [u8]) -> io::Result<usize> {
                do_read(self, buf)
            }
        }
        impl io::Read for &File {
            fn read(&mut self, _buf: &mut [u8]) -> io::Result<usize> {
                Err(io::Error::new(io::ErrorKind::Unsupported, "sim: Read for &File not modelled"))
            }
        }
        impl io::Write for File {
            fn write(&mut self, buf: &[u8]) -> io::Result<usize> {
                do_write(self, buf)
            }
            fn flush(&mut self) -> io::Result<()> {
                Ok(())
            }
        }
        impl io::Seek for File {
            fn seek(&mut self, pos: io::SeekFrom) -> io::Result<u64> {
                let len = with_world(|w| w.fs.get(&self.path).map(|v| v.len()).unwrap_or(0)) as i64;
                let np = match pos {
                    io::SeekFrom::Start(n) => n as i64,
                    io::SeekFrom::End(n) => len + n,
                    io::SeekFrom::Current(n) => self.pos as i64 + n,
                };
                if np < 0 {
                    return Err(io::Error::from_raw_os_error(libc::EINVAL));
                }
                self.pos = np as usize;
                Ok(np as u64)
            }
        }

        pub struct Metadata {
            len: u64,
            mtime: (i64, i64),
        }
        impl Metadata {
            pub fn len(&self) -> u64 {
                self.len
            }
            /// simulated modification time: the simulated clock at the last create / truncate /
            /// write through the facade, or what the scenario says for files that existed before
            pub fn modified(&self) -> io::Result<::std::time::SystemTime> {
                let (s, n) = self.mtime;
                Ok(if s >= 0 {
                    ::std::time::UNIX_EPOCH + ::std::time::Duration::new(s as u64, n as u32)
                } else {
                    ::std::time::UNIX_EPOCH - ::std::time::Duration::new((-s) as u64, 0)
                })
            }
            pub fn is_empty(&self) -> bool {
                self.len == 0
            }
            pub fn is_file(&self) -> bool {
                true
            }
            pub fn is_dir(&self) -> bool {
                false
            }
        }

        pub fn metadata<P: AsRef<::std::path::Path>>(path: P) -> io::Result<Metadata> {
            let path = crate::world::norm_path(&path.as_ref().to_string_lossy());
            with_world(|w| match w.fs.get(&path) {
                Some(v) => Ok(Metadata { len: if w.sizeless.contains(&path) { 0 } else { v.len() as u64 }, mtime: w.mtimes.get(&path).copied().unwrap_or((0, 0)) }),
                None => Err(io::Error::from_raw_os_error(libc::ENOENT)),
            })
        }

        pub fn exists<P: AsRef<::std::path::Path>>(path: P) -> io::Result<bool> {
            let path = crate::world::norm_path(&path.as_ref().to_string_lossy());
            Ok(with_world(|w| w.fs.contains_key(&path)))
        }

        pub fn read<P: AsRef<::std::path::Path>>(path: P) -> io::Result<Vec<u8>> {
            use io::Read;
            let mut f = File::open(path)?;
            let mut v = Vec::new();
            f.read_to_end(&mut v)?;
            Ok(v)
        }

        pub fn read_to_string<P: AsRef<::std::path::Path>>(path: P) -> io::Result<String> {
            use io::Read;
            let mut f = File::open(path)?;
            let mut s = String::new();
            f.read_to_string(&mut s)?;
            Ok(s)
        }

        pub fn write<P: AsRef<::std::path::Path>, C: AsRef<[u8]>>(path: P, contents: C) -> io::Result<()> {
            use io::Write;
            let mut f = File::create(path)?;
            f.write_all(contents.as_ref())
        }

        pub fn remove_file<P: AsRef<::std::path::Path>>(path: P) -> io::Result<()> {
            let path = crate::world::norm_path(&path.as_ref().to_string_lossy());
            let r = with_world(|w| {
                ev!(w, "unlink {}", path);
                match w.fs.remove(&path) {
                    Some(_) => {
                        crate::world::mirror_remove(&path);
                        Ok(w.fs_op())
                    }
                    None => Err(io::Error::from_raw_os_error(libc::ENOENT)),
                }
            });
            match r {
                Ok(true) => crash("after_fs_op"),
                Ok(false) => Ok(()),
                Err(e) => Err(e),
            }
        }

        pub fn rename<P: AsRef<::std::path::Path>, Q: AsRef<::std::path::Path>>(from: P, to: Q) -> io::Result<()> {
            let from = crate::world::norm_path(&from.as_ref().to_string_lossy());
            let to = crate::world::norm_path(&to.as_ref().to_string_lossy());
            let r = with_world(|w| {
                ev!(w, "rename {} {}", from, to);
                match w.fs.remove(&from) {
                    Some(v) => {
                        crate::world::mirror_remove(&from);
                        crate::world::mirror_put(&to, &v);
                        if let Some(m) = w.mtimes.remove(&from) {
                            w.mtimes.insert(to.clone(), m);
                        }
                        w.fs.insert(to, v);
                        Ok(w.fs_op())
                    }
                    None => Err(io::Error::from_raw_os_error(libc::ENOENT)),
                }
            });
            match r {
                Ok(true) => crash("after_fs_op"),
                Ok(false) => Ok(()),
                Err(e) => Err(e),
            }
        }

        pub fn create_dir_all<P: AsRef<::std::path::Path>>(_path: P) -> io::Result<()> {
            Ok(()) // directories are implicit in the simulated file system
        }
        pub fn create_dir<P: AsRef<::std::path::Path>>(_path: P) -> io::Result<()> {
            Ok(())
        }
        pub fn canonicalize<P: AsRef<::std::path::Path>>(path: P) -> io::Result<::std::path::PathBuf> {
            Ok(path.as_ref().to_path_buf())
        }
        pub fn try_exists<P: AsRef<::std::path::Path>>(path: P) -> io::Result<bool> {
            exists(path)
        }

        pub fn copy<P: AsRef<::std::path::Path>, Q: AsRef<::std::path::Path>>(from: P, to: Q) -> io::Result<u64> {
            let data = read(from)?;
            let n = data.len() as u64;
            write(to, data)?;
            Ok(n)
        }
    }

    pub mod io {
        pub use ::std::io::{
            copy, empty, sink, BufRead, BufReader, BufWriter, Cursor, Error, ErrorKind, IoSlice, IoSliceMut,
            LineWriter, Lines, Read, Result, Seek, SeekFrom, Write,
        };
        pub mod prelude {
            pub use ::std::io::prelude::*;
        }
        use crate::world::{with_world, HardFault};

        pub struct Stdin;
        pub struct StdinLock;
        pub struct Stdout;
        pub struct Stderr;

        /// Stand-in for std::io::IsTerminal
        pub trait IsTerminal {
            fn is_terminal(&self) -> bool;
        }
        impl IsTerminal for Stdin {
            fn is_terminal(&self) -> bool {
                with_world(|w| {
                    let t = w.stdin_tty;
                    ev!(w, "isatty <stdin> -> {}", t);
                    t
                })
            }
        }
        impl IsTerminal for Stdout {
            fn is_terminal(&self) -> bool {
                with_world(|w| w.stdout_tty)
            }
        }
        impl IsTerminal for Stderr {
            fn is_terminal(&self) -> bool {
                false
            }
        }

        pub fn stdin() -> Stdin {
            Stdin
        }
        pub fn stdout() -> Stdout {
            Stdout
        }
        pub fn stderr() -> Stderr {
            Stderr
        }

        fn stdin_read(buf: &mut [u8]) -> Result<usize> {
            with_world(|w| {
                let n_call = w.n_reads;
                w.n_reads += 1;
                if w.stdin_tty {
                    // a terminal with nobody typing: model as immediate EOF
                    ev!(w, "read <stdin:tty> -> EOF");
                    return Ok(0);
                }
                if w.plan.hard == Some(HardFault::EioRead(n_call)) {
                    w.bump("eio_read_fired");
                    ev!(w, "read <stdin> -> EIO");
                    return Err(Error::from_raw_os_error(libc::EIO));
                }
                if w.eintr(w.plan.eintr_read, "eintr_read_fired") {
                    ev!(w, "read <stdin> -> EINTR");
                    return Err(Error::from(ErrorKind::Interrupted));
                }
                let avail = w.stdin.len() - w.stdin_pos;
                let want = avail.min(buf.len());
                let n = w.chunk(w.plan.short_read, want, "short_read_fired");
                let p = w.stdin_pos;
                buf[..n].copy_from_slice(&w.stdin[p..p + n]);
                if n < want {
                    let q = p + n;
                    if q < w.stdin.len() && (w.stdin[q] & 0xC0) == 0x80 {
                        *w.counters.entry("probe_multibyte_split_by_short_read").or_insert(0) += 1;
                    }
                }
                ev!(w, "read <stdin> @{} {}/{}", p, n, buf.len());
                w.stdin_pos += n;
                Ok(n)
            })
        }

        impl Read for Stdin {
            fn read(&mut self, buf: &mut [u8]) -> Result<usize> {
                stdin_read(buf)
            }
        }
        impl Read for StdinLock {
            fn read(&mut self, buf: &mut [u8]) -> Result<usize> {
                stdin_read(buf)
            }
        }
        impl Stdin {
            pub fn lock(&self) -> BufReader<StdinLock> {
                BufReader::new(StdinLock)
            }
            pub fn read_line(&self, buf: &mut String) -> Result<usize> {
                // unbuffered line read, byte at a time (keeps the position exact)
                let mut bytes = Vec::new();
                loop {
                    let mut b = [0u8; 1];
                    match stdin_read(&mut b) {
                        Ok(0) => break,
                        Ok(_) => {
                            bytes.push(b[0]);
                            if b[0] == b'\n' {
                                break;
                            }
                        }
                        Err(e) if e.kind() == ErrorKind::Interrupted => continue,
                        Err(e) => return Err(e),
                    }
                }
                match String::from_utf8(bytes) {
                    Ok(s) => {
                        buf.push_str(&s);
                        Ok(s.len())
                    }
                    Err(_) => Err(Error::new(ErrorKind::InvalidData, "stream did not contain valid UTF-8")),
                }
            }
            pub fn lines(self) -> Lines<BufReader<StdinLock>> {
                self.lock().lines()
            }
        }

        pub(crate) fn raw_stdout_write(buf: &[u8]) -> Result<usize> {
            stdout_write(buf)
        }
        pub(crate) fn raw_stdin_read(buf: &mut [u8]) -> Result<usize> {
            stdin_read(buf)
        }

        fn stdout_write(buf: &[u8]) -> Result<usize> {
            with_world(|w| {
                let n_call = w.n_stdout_writes;
                w.n_stdout_writes += 1;
                if let Some(HardFault::EpipeStdout(k)) = w.plan.hard {
                    if n_call >= k {
                        w.bump("epipe_stdout_fired");
                        ev!(w, "write <stdout> -> EPIPE");
                        return Err(Error::from_raw_os_error(libc::EPIPE));
                    }
                }
                if w.eintr(w.plan.eintr_write, "eintr_write_fired") {
                    ev!(w, "write <stdout> -> EINTR");
                    return Err(Error::from(ErrorKind::Interrupted));
                }
                let n = w.chunk(w.plan.short_write, buf.len(), "short_write_fired");
                w.stdout.extend_from_slice(&buf[..n]);
                ev!(w, "write <stdout> {}/{}", n, buf.len());
                Ok(n)
            })
        }

        /// The file descriptor under std's line buffer.
        pub struct RawStdout;
        impl Write for RawStdout {
            fn write(&mut self, buf: &[u8]) -> Result<usize> {
                stdout_write(buf)
            }
            fn flush(&mut self) -> Result<()> {
                Ok(())
            }
        }

        /// Like the real thing, standard output sits behind std's own `LineWriter` with a
        /// 1024-byte buffer (the genuine std implementation, not a model of it): it is flushed
        /// when the process exits normally, through `process::exit` or after a panic, and lost
        /// when the process crashes.
        static STDOUT_LW: ::std::sync::Mutex<Option<LineWriter<RawStdout>>> = ::std::sync::Mutex::new(None);

        fn with_lw<R>(f: impl FnOnce(&mut LineWriter<RawStdout>) -> R) -> R {
            let mut g = STDOUT_LW.lock().unwrap_or_else(|e| e.into_inner());
            f(g.get_or_insert_with(|| LineWriter::with_capacity(1024, RawStdout)))
        }

        /// New process: empty line buffer (whatever an earlier, crashed process left is gone).
        pub fn reset_stdout() {
            let mut g = STDOUT_LW.lock().unwrap_or_else(|e| e.into_inner());
            if let Some(old) = g.take() {
                ::std::mem::forget(old); // never flush a dead process's buffer
            }
        }

        /// Process exit: `flush = true` for a normal exit / `process::exit` / panic, `false` for a crash.
        pub fn finish_stdout(flush: bool) {
            let taken = STDOUT_LW.lock().unwrap_or_else(|e| e.into_inner()).take();
            if let Some(mut lw) = taken {
                if flush {
                    let _ = lw.flush();
                }
                ::std::mem::forget(lw); // its Drop would flush again
            }
        }

        impl Write for Stdout {
            fn write(&mut self, buf: &[u8]) -> Result<usize> {
                with_lw(|lw| lw.write(buf))
            }
            fn flush(&mut self) -> Result<()> {
                with_lw(|lw| lw.flush())
            }
        }
        impl Stdout {
            pub fn lock(&self) -> Stdout {
                Stdout
            }
        }
        impl Write for Stderr {
            fn write(&mut self, buf: &[u8]) -> Result<usize> {
                with_world(|w| {
                    w.stderr.extend_from_slice(buf);
                    ev!(w, "write <stderr> {}", buf.len());
                });
                Ok(buf.len())
            }
            fn flush(&mut self) -> Result<()> {
                Ok(())
            }
        }
        impl Stderr {
            pub fn lock(&self) -> Stderr {
                Stderr
            }
        }

        /// Backs the shadowed `print!`/`println!`: like std, a failure to
        /// write to stdout is a panic.
        pub fn _print(args: ::std::fmt::Arguments) {
            if let Err(e) = Stdout.write_fmt(args) {
                panic!("failed printing to stdout: {}", e);
            }
        }
        pub fn _eprint(args: ::std::fmt::Arguments) {
            let _ = Stderr.write_fmt(args);
        }
        pub fn read_to_string<R: Read>(mut r: R) -> Result<String> {
            let mut s = String::new();
            r.read_to_string(&mut s)?;
            Ok(s)
        }
    }
}

// ---------------------------------------------------------------------------
// atty facade
// ---------------------------------------------------------------------------

pub mod simatty {
    pub enum Stream {
        Stdin,
        Stdout,
        Stderr,
    }
    pub fn is(s: Stream) -> bool {
        match s {
            Stream::Stdin => crate::world::with_world(|w| {
                ev!(w, "isatty <stdin> -> {}", w.stdin_tty);
                w.stdin_tty
            }),
            Stream::Stdout => crate::world::with_world(|w| w.stdout_tty),
            _ => false,
        }
    }
    pub fn isnt(s: Stream) -> bool {
        !is(s)
    }
}

// ---------------------------------------------------------------------------
// clap facade: everything is the real clap, except that `Parser::parse*`
// reads the simulated argv and renders help/errors into the simulated streams.
// ---------------------------------------------------------------------------

pub mod simclap {
    pub use ::clap::*;

    pub trait Parser: FromArgMatches + CommandFactory + Sized {
        fn parse() -> Self {
            let argv = crate::world::with_world(|w| w.argv.clone());
            match Self::try_parse_from(argv) {
                Ok(v) => v,
                Err(e) => {
                    let rendered = e.render().to_string();
                    let code = e.exit_code();
                    crate::world::with_world(|w| {
                        if e.use_stderr() {
                            w.stderr.extend_from_slice(rendered.as_bytes());
                        } else {
                            w.stdout.extend_from_slice(rendered.as_bytes());
                        }
                        ev!(w, "clap exit {}", code);
                    });
                    crate::world::halt(crate::world::Halt::Exit(code))
                }
            }
        }
        fn try_parse() -> Result<Self, Error> {
            let argv = crate::world::with_world(|w| w.argv.clone());
            Self::try_parse_from(argv)
        }
        fn try_parse_from<I, T>(itr: I) -> Result<Self, Error>
        where
            I: IntoIterator<Item = T>,
            T: Into<::std::ffi::OsString> + Clone,
        {
            let mut matches = <Self as CommandFactory>::command().try_get_matches_from(itr)?;
            <Self as FromArgMatches>::from_arg_matches_mut(&mut matches)
                .map_err(|e| e.format(&mut <Self as CommandFactory>::command()))
        }
        fn parse_from<I, T>(itr: I) -> Self
        where
            I: IntoIterator<Item = T>,
            T: Into<::std::ffi::OsString> + Clone,
        {
            match Self::try_parse_from(itr) {
                Ok(v) => v,
                Err(e) => {
                    let code = e.exit_code();
                    crate::world::halt(crate::world::Halt::Exit(code))
                }
            }
        }
    }
}

// ---------------------------------------------------------------------------
// Mirror of the simulated file system on the real one.  Reads and writes of the code under
// test go through the facade above; but `std::path::Path::{exists, is_file, metadata, ...}`
// ask the REAL file system.  So that such questions get the simulated answer, the process
// works inside a private scratch directory (tmpfs) in which, at the start of every simulated
// execution, exactly the files of the simulated file system exist (with their contents), and
// creations / removals / renames through the facade are mirrored as they happen.
// ---------------------------------------------------------------------------

static SANDBOX: Mutex<Option<::std::path::PathBuf>> = Mutex::new(None);
static MIRRORED: Mutex<Vec<String>> = Mutex::new(Vec::new());

/// Different spellings of one relative path name the same file: `./a//b/./c` is `a/b/c`.
pub fn norm_path(p: &str) -> String {
    let abs = p.starts_with('/');
    let parts: Vec<&str> = p.split('/').filter(|c| !c.is_empty() && *c != ".").collect();
    let joined = parts.join("/");
    if abs {
        format!("/{}", joined)
    } else {
        joined
    }
}

fn mirrorable(path: &str) -> bool {
    !path.is_empty() && !path.starts_with('/') && !path.split('/').any(|c| c == ".." || c == "." || c.is_empty())
}

/// Enters (creating it if need be) this process's scratch directory.  Call once, after all
/// arguments that name real files have been read.
pub fn sandbox_enter() {
    let mut g = SANDBOX.lock().unwrap_or_else(|e| e.into_inner());
    if g.is_some() {
        return;
    }
    let base = if ::std::path::Path::new("/dev/shm").is_dir() { ::std::path::PathBuf::from("/dev/shm") } else { ::std::env::temp_dir() };
    let dir = base.join(format!("chiritori-sim-{}", ::std::process::id()));
    if ::std::fs::create_dir_all(&dir).is_ok() && ::std::env::set_current_dir(&dir).is_ok() {
        *g = Some(dir);
    }
}

/// Removes the scratch directory (worker exit).
pub fn sandbox_leave() {
    let mut g = SANDBOX.lock().unwrap_or_else(|e| e.into_inner());
    if let Some(dir) = g.take() {
        let _ = ::std::env::set_current_dir("/");
        let _ = ::std::fs::remove_dir_all(dir);
    }
}

/// New scenario: nothing of an earlier scenario may be left in the scratch directory.
pub fn sandbox_reset() {
    let g = SANDBOX.lock().unwrap_or_else(|e| e.into_inner());
    if let Some(dir) = g.as_ref() {
        if let Ok(rd) = ::std::fs::read_dir(dir) {
            for e in rd.flatten() {
                let p = e.path();
                if p.is_dir() {
                    let _ = ::std::fs::remove_dir_all(&p);
                } else {
                    let _ = ::std::fs::remove_file(&p);
                }
            }
        }
        MIRRORED.lock().unwrap_or_else(|e| e.into_inner()).clear();
    }
}

fn sandbox_active() -> bool {
    SANDBOX.lock().unwrap_or_else(|e| e.into_inner()).is_some()
}

fn mirror_put(path: &str, content: &[u8]) {
    if !mirrorable(path) {
        return;
    }
    if let Some((dir, _)) = path.rsplit_once('/') {
        let _ = ::std::fs::create_dir_all(dir);
    }
    if ::std::fs::write(path, content).is_ok() {
        let mut m = MIRRORED.lock().unwrap_or_else(|e| e.into_inner());
        if !m.iter().any(|x| x == path) {
            m.push(path.to_string());
        }
    }
}

fn mirror_remove(path: &str) {
    if !mirrorable(path) {
        return;
    }
    let _ = ::std::fs::remove_file(path);
    MIRRORED.lock().unwrap_or_else(|e| e.into_inner()).retain(|x| x != path);
}

/// Makes the scratch directory hold exactly `fs`.
fn mirror_sync(fs: &Fs) {
    if !sandbox_active() {
        return;
    }
    let old: Vec<String> = MIRRORED.lock().unwrap_or_else(|e| e.into_inner()).clone();
    for p in old {
        if !fs.contains_key(&p) {
            mirror_remove(&p);
        }
    }
    for (p, c) in fs {
        if !is_meta_key(p) {
            mirror_put(p, c);
        }
    }
}

// ---------------------------------------------------------------------------
// One simulated process execution
// ---------------------------------------------------------------------------

#[derive(Clone, Debug, Default, Serialize, Deserialize, PartialEq)]
pub struct Exec {
    pub argv: Vec<String>,
    #[serde(default)]
    pub stdin: StdinSpec,
    /// environment variables set for this execution (TZ, LANG, LC_ALL); the
    /// rest of the environment is cleared of these three
    #[serde(default)]
    pub env: BTreeMap<String, String>,
    pub clock: ClockSpec,
    #[serde(default)]
    pub io: IoPlan,
    /// standard output is a terminal (only what `atty` / `IsTerminal` report changes)
    #[serde(default)]
    pub stdout_tty: bool,
    /// paths that behave like a FIFO (`/dev/stdin`, process substitution): metadata says size 0
    #[serde(default)]
    pub sizeless: Vec<String>,
    /// modification times of files that exist before the execution (absent = the epoch)
    #[serde(default)]
    pub mtimes: BTreeMap<String, (i64, i64)>,
}

#[derive(Clone, Debug)]
pub enum Status {
    Exit(i32),
    Panic(String),
    Crash(&'static str),
}

#[derive(Clone, Debug)]
pub struct Outcome {
    pub status: Status,
    pub stdout: Vec<u8>,
    pub stderr: Vec<u8>,
    pub log: Vec<String>,
    pub log_hash: u64,
    pub counters: BTreeMap<&'static str, u64>,
    pub clock: ClockReport,
}

impl Outcome {
    pub fn exit_code(&self) -> i32 {
        match &self.status {
            Status::Exit(c) => *c,
            Status::Panic(_) => 101,
            Status::Crash(_) => 137,
        }
    }
}

/// Variables that are always cleared unless the execution sets them; any other variable an
/// execution sets is removed again before the next one.
const ENV_KEYS: [&str; 9] = ["TZ", "LANG", "LC_ALL", "LC_TIME", "NO_COLOR", "CLICOLOR", "CLICOLOR_FORCE", "TERM", "COLUMNS"];
static EXTRA_ENV: Mutex<Vec<String>> = Mutex::new(Vec::new());

/// Installs exactly the simulated environment `env` (process-global; one execution at a time).
pub fn install_env(env: &BTreeMap<String, String>) {
    let mut extra = EXTRA_ENV.lock().unwrap_or_else(|e| e.into_inner());
    for k in extra.drain(..) {
        std::env::remove_var(k);
    }
    for k in ENV_KEYS {
        std::env::remove_var(k);
    }
    for (k, v) in env {
        std::env::set_var(k, v);
        if !ENV_KEYS.contains(&k.as_str()) {
            extra.push(k.clone());
        }
    }
}

thread_local! {
    static PANIC_MSG: std::cell::RefCell<Option<String>> = const { std::cell::RefCell::new(None) };
    /// set while the harness calls the library directly and expects a possible panic
    pub static QUIET_PANICS: std::cell::Cell<bool> = const { std::cell::Cell::new(false) };
}

pub fn install_panic_hook() {
    std::panic::set_hook(Box::new(|info| {
        let msg = if let Some(s) = info.payload().downcast_ref::<&str>() {
            s.to_string()
        } else if let Some(s) = info.payload().downcast_ref::<String>() {
            s.clone()
        } else {
            "Box<dyn Any>".to_string()
        };
        let loc = info.location().map(|l| format!("{}:{}", l.file(), l.line())).unwrap_or_default();
        let in_sim = std::thread::current().name() == Some("sim-exec");
        if in_sim {
            PANIC_MSG.with(|p| *p.borrow_mut() = Some(format!("{} at {}", msg, loc)));
        } else if !QUIET_PANICS.with(|q| q.get()) {
            eprintln!("harness panic: {} at {}", msg, loc);
        }
    }));
}

/// Runs `entry` (the real `main`) as one simulated process on a fresh thread
/// against file system `fs`; returns what a parent process would observe.
pub fn execute(fs: &mut Fs, ex: &Exec, entry: fn()) -> Outcome {
    // environment (process-global; this worker runs one execution at a time)
    install_env(&ex.env);
    mirror_sync(fs);
    let (stdin, tty) = match &ex.stdin {
        StdinSpec::Tty => (Vec::new(), true),
        StdinSpec::Pipe(s) => (s.clone().into_bytes(), false),
        StdinSpec::PipeBytes(b) => (b.clone(), false),
    };
    // durable modification times travel inside `fs` (see `Fs`)
    let mut durable_mtimes: BTreeMap<String, (i64, i64)> = BTreeMap::new();
    let meta: Vec<String> = fs.keys().filter(|k| is_meta_key(k)).cloned().collect();
    for k in meta {
        if let (Some(v), Some(path)) = (fs.remove(&k), k.strip_prefix(MTIME_PREFIX)) {
            if v.len() == 16 {
                let s = i64::from_le_bytes(v[..8].try_into().unwrap());
                let n = i64::from_le_bytes(v[8..].try_into().unwrap());
                durable_mtimes.insert(path.to_string(), (s, n));
            }
        }
    }
    for (k, v) in &ex.mtimes {
        durable_mtimes.insert(k.clone(), *v);
    }
    let world = World {
        fs: std::mem::take(fs),
        stdin,
        stdin_tty: tty,
        stdout_tty: ex.stdout_tty,
        sizeless: ex.sizeless.clone(),
        mtimes: durable_mtimes,
        argv: ex.argv.clone(),
        plan: ex.io.clone(),
        rng: ex.io.seed ^ 0xA5A5_5A5A_DEAD_BEEF,
        ..Default::default()
    };
    *WORLD.lock().unwrap_or_else(|e| e.into_inner()) = Some(world);
    simstd::io::reset_stdout();
    random_begin_execution();
    clock_install(&ex.clock);

    let (tx, rx) = std::sync::mpsc::channel::<ExecMsg>();
    let handle = std::thread::Builder::new()
        .name("sim-exec".into())
        .stack_size(16 << 20)
        .spawn(move || {
            HALT_TX.with(|t| *t.borrow_mut() = Some(tx.clone()));
            let r = std::panic::catch_unwind(entry);
            let msg = PANIC_MSG.with(|p| p.borrow_mut().take());
            HALT_TX.with(|t| *t.borrow_mut() = None);
            let _ = tx.send(ExecMsg::Done(r, msg));
        })
        .expect("spawn sim-exec");
    let first = rx.recv().expect("sim-exec thread vanished");
    let (res, msg): (Result<::std::thread::Result<()>, Halt>, Option<String>) = match first {
        ExecMsg::Done(r, m) => {
            handle.join().expect("sim-exec thread join");
            (Ok(r), m)
        }
        // exit / crash: the thread stays parked forever (it is never joined), exactly as a
        // process that is gone never runs another instruction
        ExecMsg::Halted(h) => (Err(h), None),
    };

    // what is still in the line buffer reaches the descriptor unless the process crashed
    let crashed = matches!(res, Err(Halt::Crash(_))) || with_world(|w| w.plan.crash == Some(CrashAt::AtExit));
    simstd::io::finish_stdout(!crashed);
    let clock = clock_uninstall();
    let mut world = WORLD.lock().unwrap_or_else(|e| e.into_inner()).take().expect("world vanished");
    let mut status = match res {
        Err(Halt::Exit(c)) => Status::Exit(c),
        Err(Halt::Crash(w)) => Status::Crash(w),
        Ok(Ok(())) => Status::Exit(0),
        Ok(Err(payload)) => {
            if let Some(SimExit(c)) = payload.downcast_ref::<SimExit>() {
                Status::Exit(*c)
            } else if let Some(SimCrash(w)) = payload.downcast_ref::<SimCrash>() {
                Status::Crash(w)
            } else {
                let m = msg.unwrap_or_else(|| "panic".into());
                world.stderr.extend_from_slice(format!("thread 'main' panicked: {}\n", m).as_bytes());
                Status::Panic(m)
            }
        }
    };
    if let (Status::Exit(_), Some(CrashAt::AtExit)) = (&status, &world.plan.crash) {
        ev!(world, "crash at_exit");
        *world.counters.entry("crash_fired").or_insert(0) += 1;
        status = Status::Crash("at_exit");
    }
    match &status {
        Status::Exit(c) => ev!(world, "status exit={}", c),
        Status::Panic(m) => ev!(world, "status panic={}", m),
        Status::Crash(w) => ev!(world, "status crash={}", w),
    }
    if world.log_dropped > 0 {
        let n = world.log_dropped;
        ev!(world, "(+{} further I/O events not logged)", n);
    }
    ev!(world, "clock reads={} first={:?}", clock.reads, clock.first);
    *fs = std::mem::take(&mut world.fs);
    for (path, (s, n)) in &world.mtimes {
        if fs.contains_key(path) {
            let mut v = Vec::with_capacity(16);
            v.extend_from_slice(&s.to_le_bytes());
            v.extend_from_slice(&n.to_le_bytes());
            fs.insert(format!("{}{}", MTIME_PREFIX, path), v);
        }
    }
    Outcome {
        status,
        stdout: world.stdout,
        stderr: world.stderr,
        log: world.log,
        log_hash: world.log_hash,
        counters: world.counters,
        clock,
    }
}
