#!/bin/bash
# Confirms a seeded change (patch.diff + demo.sh + meta.json in <bugdir>) in a scratch worktree,
# then runs the checks against it on /repo itself (applied, checked, reverted), and files it
# under /verif/seeded/<id>/.
# usage: tools/eval_seeded.sh <bugdir> <property> <id> [thorough]
set -u
BUG="$1"; PROP="$2"; ID="$3"; DEEP="${4:-}"
VERIF=/verif
WT="/tmp/seedval-$ID"
OUT="$VERIF/seeded/$ID"
LOG="$(mktemp)"
say() { echo "[$ID] $*"; }
PHASE="${PHASE:-all}"      # all | confirm (step 1 only; may run in parallel for several changes) | check (steps 2-3, reuses a stored step 1)
ONLY_OWN="${ONLY_OWN:-}"   # non-empty: run only the quick check of the change's own property in step 2
[ "$PHASE" = confirm ] || [ -z "$(git -C /repo status --porcelain)" ] || { say "/repo working tree is not clean"; exit 2; }
if [ "$PHASE" = check ] && [ -f "$BUG/.confirm" ]; then
  . "$BUG/.confirm"
else

# --- 1. confirm in a scratch worktree -----------------------------------------------
rm -rf "$WT"; git -C /repo worktree prune; git -C /repo worktree add -q --detach "$WT" HEAD || exit 2
cleanup() { rm -rf "$WT/target"; git -C /repo worktree remove --force "$WT" 2>/dev/null; rm -f "$LOG"; }
trap cleanup EXIT
if ! git -C "$WT" apply --check "$BUG/patch.diff" 2>"$LOG"; then say "patch does not apply: $(cat $LOG)"; exit 3; fi
( cd "$WT" && cargo build --release --offline >/dev/null 2>&1 )
demo_orig=$(cd "$WT" && bash "$BUG/demo.sh" "$WT" >"$LOG" 2>&1; echo $?)
say "demo on original tree: exit $demo_orig"
git -C "$WT" apply "$BUG/patch.diff"
suite=$(cd "$WT" && cargo test --workspace --no-fail-fast --offline 2>&1 | grep -E '^test result' | tr '\n' ';')
suite_ok=yes; echo "$suite" | grep -qE '[1-9][0-9]* failed' && suite_ok=no
[ -n "$suite" ] || suite_ok=no
say "suite with patch: $suite_ok ($suite)"
( cd "$WT" && cargo build --release --offline >/dev/null 2>&1 ) || { say "patched tree does not build"; exit 3; }
demo_patched=$(cd "$WT" && bash "$BUG/demo.sh" "$WT" >"$LOG" 2>&1; echo $?)
say "demo on patched tree: exit $demo_patched"
git -C "$WT" checkout -- .
confirmed=no
if [ "$demo_orig" = 0 ] && [ "$demo_patched" != 0 ] && [ "$suite_ok" = yes ]; then confirmed=yes; fi
say "confirmed: $confirmed"
printf 'confirmed=%s\ndemo_orig=%s\ndemo_patched=%s\nsuite_ok=%s\n' "$confirmed" "$demo_orig" "$demo_patched" "$suite_ok" > "$BUG/.confirm"
cleanup; trap - EXIT
fi
[ "$PHASE" = confirm ] && exit 0

# --- 2. run the checks against it on /repo ------------------------------------------
export VERIF_NO_EVIDENCE=1
export VERIF_REPLAY_DIR="/tmp/seedval-replays-$ID"; mkdir -p "$VERIF_REPLAY_DIR"
git -C /repo apply "$BUG/patch.diff" || exit 3
declare -A RES
for p in C05 C19 C20; do
  if [ -n "$ONLY_OWN" ] && [ "$p" != "$PROP" ]; then RES[$p]="|not run"; continue; fi
  out=$(cd $VERIF && ./check $p quick 2>&1); rc=$?
  inv=$(echo "$out" | grep -E '^(violated invariant|regression replay .* fails again)' | head -1)
  RES[$p]="$rc|$inv"
  say "check $p quick: exit $rc $inv"
done
deep=""
rc_main="${RES[$PROP]%%|*}"
if [ "$rc_main" = 0 ] && [ -n "$DEEP" ]; then
  out=$(cd $VERIF && ./check $PROP thorough 2>&1); rc=$?
  inv=$(echo "$out" | grep -E '^(violated invariant|regression replay .* fails again)' | head -1)
  deep="$rc|$inv"
  say "check $PROP thorough: exit $rc $inv"
fi
git -C /repo checkout -- .
( cd $VERIF && ./check build >/dev/null 2>&1 )   # never leave a harness built from a patched tree behind
rm -rf "$VERIF_REPLAY_DIR"

# --- 3. file it ------------------------------------------------------------------------
mkdir -p "$OUT"
cp "$BUG/patch.diff" "$BUG/demo.sh" "$OUT/"
python3 - "$BUG/meta.json" "$OUT/meta.json" "$PROP" "$confirmed" "$demo_orig" "$demo_patched" "$suite_ok" "${RES[C05]}" "${RES[C19]}" "${RES[C20]}" "$deep" <<'PY'
import json, sys
src, dst, prop, confirmed, d0, d1, suite, c05, c19, c20, deep = sys.argv[1:12]
try:
    meta = json.load(open(src))
except Exception:
    meta = {}
def res(s):
    rc, _, inv = s.partition('|')
    return {"exit": int(rc) if rc.strip().lstrip('-').isdigit() else None, "first_report": inv}
meta["breaks_property"] = prop
meta["confirmed_by_me"] = {
    "what_i_ran": "scratch worktree of /repo HEAD: demo.sh on the original tree, `git apply patch.diff`, `cargo test --workspace --no-fail-fast --offline`, release build, demo.sh on the patched tree; then `git -C /repo apply`, `./check C05|C19|C20 quick`, `git -C /repo checkout -- .`",
    "demo_exit_original": int(d0), "demo_exit_patched": int(d1), "suite_passes_with_patch": suite == "yes", "confirmed": confirmed == "yes"}
meta["checks"] = {"C05_quick": res(c05), "C19_quick": res(c19), "C20_quick": res(c20)}
if deep:
    meta["checks"][prop + "_thorough"] = res(deep)
json.dump(meta, open(dst, "w"), indent=1, ensure_ascii=False)
PY
say "filed under $OUT"
