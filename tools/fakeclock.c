/* LD_PRELOAD shim used only by `./check selftest fidelity`: lets the REAL chiritori binary read a
 * chosen wall-clock instant (VERIF_FAKE_CLOCK=<sec>.<nsec, 9 digits>), so that clock-reading
 * executions can be compared with their simulated counterparts. */
#define _GNU_SOURCE
#include <stdio.h>
#include <stdlib.h>
#include <time.h>
#include <unistd.h>
#include <sys/syscall.h>

int clock_gettime(clockid_t clk, struct timespec *ts) {
    const char *s = getenv("VERIF_FAKE_CLOCK");
    if (clk == CLOCK_REALTIME && s) {
        long long sec = 0;
        long nsec = 0;
        if (sscanf(s, "%lld.%ld", &sec, &nsec) == 2) {
            ts->tv_sec = (time_t)sec;
            ts->tv_nsec = nsec;
            return 0;
        }
    }
    return (int)syscall(SYS_clock_gettime, clk, ts);
}
