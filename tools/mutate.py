#!/usr/bin/env python3
"""Mutation adequacy run (not a registered check; a measuring tool for the author).

Small syntactic mutants are applied one at a time to a scratch copy of /repo's working tree
(outside /repo and /verif, removed afterwards).  A mutant that still compiles and passes the
repository's own test suite is then shown to the three quick checks.  The result table says,
for every surviving mutant, which checks report a violation, so that survivors that no check
reports can be looked at by hand (equivalent mutant / breaks only a pure property that this
technique does not decide / a gap in a check).

usage: tools/mutate.py [--sample N] [--seed S] [--files a,b,...] [--out results.json]
"""
import json, os, random, re, shutil, subprocess, sys, tempfile, time

VERIF = os.path.dirname(os.path.dirname(os.path.abspath(__file__)))
FILES = [
    'chiritori-cli/src/main.rs',
    'chiritori/src/code/remover/removal_evaluator/time_limited_evaluator.rs',
    'chiritori/src/code/remover/removal_evaluator/marker_evaluator.rs',
    'chiritori/src/code/remover/marker/builder/unwrap_block_marker_builder.rs',
    'chiritori/src/code/remover/marker/builder/range_marker_builder.rs',
    'chiritori/src/code/remover/marker/availability/unwrap_block_marker_availability.rs',
    'chiritori/src/code/remover.rs',
    'chiritori/src/code/formatter.rs',
    'chiritori/src/code/formatter/empty_line_remover.rs',
    'chiritori/src/code/formatter/next_line_break_remover.rs',
    'chiritori/src/code/formatter/prev_line_break_remover.rs',
    'chiritori/src/code/formatter/indent_remover.rs',
    'chiritori/src/code/formatter/block_indent_remover.rs',
    'chiritori/src/code/utils/line_break_pos_finder.rs',
    'chiritori/src/chiritori.rs',
    'chiritori/src/element_parser.rs',
    'chiritori/src/parser.rs',
    'chiritori/src/tokenizer.rs',
]

# (regex, replacement, name); applied to one occurrence at a time
OPS = [
    (r' < ', ' <= ', 'lt->le'), (r' <= ', ' < ', 'le->lt'), (r' > ', ' >= ', 'gt->ge'), (r' >= ', ' > ', 'ge->gt'),
    (r' == ', ' != ', 'eq->ne'), (r' != ', ' == ', 'ne->eq'),
    (r' && ', ' || ', 'and->or'), (r' \|\| ', ' && ', 'or->and'),
    (r' \+ 1\b', ' + 0', 'plus1->plus0'), (r' \+ 1\b', ' + 2', 'plus1->plus2'), (r' - 1\b', ' - 0', 'minus1->minus0'),
    (r' \+ ', ' - ', 'plus->minus'), (r' - ', ' + ', 'minus->plus'),
    (r'\btrue\b', 'false', 'true->false'), (r'\bfalse\b', 'true', 'false->true'),
    (r'\.min\(', '.max(', 'min->max'), (r'\.max\(', '.min(', 'max->min'),
    (r'\.is_none\(\)', '.is_some()', 'none->some'), (r'\.is_some\(\)', '.is_none()', 'some->none'),
    (r'\bif !', 'if ', 'drop-not'), (r'\.is_empty\(\)', '.is_empty() == false', 'negate-is_empty'),
    (r'\.rev\(\)', '', 'drop-rev'), (r'\bSome\(b\' \'\)', "Some(b'_')", 'blank->underscore'),
    (r"' ' \| '\\n' \| '\\t' \| '\\r'", "' '", 'only-blank'),
    (r'\.chain\(args\.removal_marker_target_name\)', '', 'drop-flag-targets'),
    (r'unwrap_or\(chrono::Local::now\(\)\)', 'unwrap_or_else(|_| chrono::Local::now() - chrono::Duration::seconds(1))', 'now-minus-1s'),
    (r'cursor \+= 1;', 'cursor += 2;', 'cursor+=2'), (r'cursor -= 1;', 'cursor -= 2;', 'cursor-=2'),
]


def code_region(src):
    """byte range of non-test code"""
    m = re.search(r'#\[cfg\(test\)\]', src)
    return (0, m.start() if m else len(src))


def mutants_of(path, src):
    lo, hi = code_region(src)
    out = []
    for rx, rep, name in OPS:
        for m in re.finditer(rx, src):
            if not (lo <= m.start() < hi):
                continue
            line_start = src.rfind('\n', 0, m.start()) + 1
            line = src[line_start:src.find('\n', m.start())]
            s = line.strip()
            if s.startswith('//') or s.startswith('#[') or s.startswith('use ') or '->' in line and 'fn ' in line:
                continue
            if 'assert' in line:
                continue
            lineno = src.count('\n', 0, m.start()) + 1
            out.append(dict(file=path, op=name, pos=m.start(), end=m.end(), rep=rep, line=lineno, text=s[:120]))
    return out


def sh(cmd, timeout=None):
    try:
        r = subprocess.run(cmd, shell=True, capture_output=True, text=True, timeout=timeout)
        return r.returncode, r.stdout + r.stderr
    except subprocess.TimeoutExpired:
        return 124, 'timeout'


def main():
    args = sys.argv[1:]
    def opt(name, default=None):
        return args[args.index(name) + 1] if name in args else default
    sample = int(opt('--sample', '0'))
    seed = int(opt('--seed', '1'))
    files = opt('--files')
    out_path = opt('--out', os.path.join(VERIF, 'selftest_results', 'mutation.json'))
    flist = files.split(',') if files else FILES

    scratch = tempfile.mkdtemp(prefix='verif-mut-')
    repo = os.path.join(scratch, 'repo')
    try:
        subprocess.run(f"rsync -a --exclude target --exclude .git /repo/ {repo}/", shell=True, check=True)
        env = f"VERIF_NO_EVIDENCE=1 VERIF_REPLAY_DIR={scratch}/replays VERIF_SHADOW_DIR={scratch}/shadow VERIF_REPO={repo}"
        os.makedirs(f"{scratch}/replays", exist_ok=True)
        allm = []
        for f in flist:
            src = open(os.path.join(repo, f)).read()
            allm += mutants_of(f, src)
        random.Random(seed).shuffle(allm)
        if sample:
            allm = allm[:sample]
        print(f"{len(allm)} mutants", flush=True)
        results = []
        t00 = time.time()
        for i, m in enumerate(allm):
            path = os.path.join(repo, m['file'])
            orig = open(path).read()
            open(path, 'w').write(orig[:m['pos']] + m['rep'] + orig[m['end']:])
            t0 = time.time()
            rc, out = sh(f"cd {repo} && timeout 300 cargo test --workspace --no-fail-fast --offline --target-dir {scratch}/suite-target 2>&1 | grep -E '^test result|^error(\\[E|: could not compile)' ", timeout=400)
            lines = [l for l in out.splitlines() if l.startswith('test result')]
            if any(l.startswith('error') for l in out.splitlines()) or not lines:
                status = 'does-not-compile'
            elif any(re.search(r'[1-9][0-9]* failed', l) for l in lines):
                status = 'killed-by-suite'
            else:
                status = 'survives-suite'
            rec = dict(m, status=status)
            rec.pop('pos'); rec.pop('end')
            if status == 'survives-suite':
                checks = {}
                for prop in ('C05', 'C19', 'C20'):
                    rc, out = sh(f"{env} timeout 600 {VERIF}/check {prop} quick", timeout=700)
                    inv = [l for l in out.splitlines() if l.startswith('violated invariant') or 'fails again' in l]
                    checks[prop] = dict(exit=rc, report=(inv[0][:140] if inv else ''))
                rec['checks'] = checks
                rec['reported_by'] = [p for p, c in checks.items() if c['exit'] == 1]
                rec['harness_error'] = [p for p, c in checks.items() if c['exit'] not in (0, 1)]
            results.append(rec)
            open(path, 'w').write(orig)
            tag = status if status != 'survives-suite' else ('REPORTED by ' + ','.join(rec['reported_by']) if rec['reported_by'] else ('harness-error ' + ','.join(rec['harness_error']) if rec['harness_error'] else 'NOT REPORTED'))
            print(f"[{i+1}/{len(allm)}] {m['file'].split('/')[-1]}:{m['line']} {m['op']:14s} {tag}   ({time.time()-t0:.0f}s)  | {m['text'][:70]}", flush=True)
            os.makedirs(os.path.dirname(out_path), exist_ok=True)
            json.dump(dict(wall_s=round(time.time() - t00), results=results), open(out_path, 'w'), indent=1)
        surv = [r for r in results if r['status'] == 'survives-suite']
        rep = [r for r in surv if r['reported_by']]
        print(f"done: {len(results)} mutants, {len(surv)} survive the test suite, {len(rep)} of those reported by at least one check")
    finally:
        shutil.rmtree(scratch, ignore_errors=True)


if __name__ == '__main__':
    main()
