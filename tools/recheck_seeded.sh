#!/bin/bash
# Re-runs the three quick checks against every filed seeded change (applied to /repo, reverted
# straight afterwards) and refreshes the "checks" entry of its meta.json.
# usage: tools/recheck_seeded.sh [id ...]
set -u
VERIF=/verif
[ -z "$(git -C /repo status --porcelain)" ] || { echo "/repo working tree is not clean"; exit 2; }
export VERIF_NO_EVIDENCE=1
export VERIF_REPLAY_DIR="$(mktemp -d /tmp/seedrecheck-XXXXXX)"
trap 'git -C /repo checkout -- . ; rm -rf "$VERIF_REPLAY_DIR"' EXIT
ids=("$@"); [ ${#ids[@]} -gt 0 ] || ids=($(ls $VERIF/seeded))
missed=0
for id in "${ids[@]}"; do
  d=$VERIF/seeded/$id
  prop=$(python3 -c "import json;print(json.load(open('$d/meta.json'))['breaks_property'])")
  if ! git -C /repo apply "$d/patch.diff" 2>/dev/null; then echo "$id: patch no longer applies to /repo HEAD"; continue; fi
  declare -A RES=()
  for p in C05 C19 C20; do
    out=$(cd $VERIF && ./check $p quick 2>&1); rc=$?
    inv=$(echo "$out" | grep -E '^(violated invariant|regression replay .* fails again)' | head -1)
    RES[$p]="$rc|$inv"
  done
  git -C /repo checkout -- .
  python3 - "$d/meta.json" "${RES[C05]}" "${RES[C19]}" "${RES[C20]}" "$(git -C /repo rev-parse --short HEAD)" "$(git -C $VERIF rev-parse --short HEAD)" <<'PY'
import json, sys
f, c05, c19, c20, repo_head, verif_head = sys.argv[1:7]
m = json.load(open(f))
def res(s):
    rc, _, inv = s.partition('|')
    return {"exit": int(rc), "first_report": inv}
m["checks"] = {"C05_quick": res(c05), "C19_quick": res(c19), "C20_quick": res(c20), "against_repo_commit": repo_head, "with_verif_commit": verif_head}
json.dump(m, open(f, "w"), indent=1, ensure_ascii=False)
PY
  rcm="${RES[$prop]%%|*}"
  echo "$id ($prop): C05=${RES[C05]%%|*} C19=${RES[C19]%%|*} C20=${RES[C20]%%|*}  $([ "$rcm" = 1 ] && echo caught || echo 'NOT CAUGHT by its own property check')"
  [ "$rcm" = 1 ] || missed=$((missed+1))
done
( cd $VERIF && ./check build >/dev/null 2>&1 )   # never leave a harness built from a patched tree behind
echo "recheck done: ${#ids[@]} seeded changes, $missed not caught by the check of the property they break"
